#!/usr/bin/env python3
"""Generate /verif/MANIFEST.json from the table below (single source of truth)."""
import json
import os

VERIF = os.path.dirname(os.path.dirname(os.path.abspath(__file__)))

NOTE = ("Trusted base: rustc nightly MIR/resolution, /verif/driver (fact extractor), /verif/rules (rule engine); "
        "std/console/tokio/rayon behave as documented; user callbacks do not panic, block or re-enter; "
        "no unsafe in the crate (checked each run). Audited panic-ledger reasons are human-verified.")

# id -> (implemented, technique, text, design_ref)
P = {
    "C01": (True, "MIR must-pass-through / who-may-call over the paint routine", "Static rule discharge of the emit protocol (erase->paint->flush->commit order, commit only on success, single emitter, erase-phase constants: up by rows-1 / clear exactly rows), suspend clears-before and force-redraws-after, rows measured with the wrap-aware newtype. Does not decide wrap/filler arithmetic or screen contents. Also: bar rows are exactly the split('\\n') segments of the rendered text (no lossy splitter, whole text only under a no-line-break test), and the renderer builds Bar rows only (Text/Empty only on println paths). Also (seed rounds 4-6): println asks for a forced drawable; every path of the paint loop writes the current line unless it leaves the loop at the height test; the Bottom-alignment shift is computed from the whole frame.", "3/C01"),
    "C02": (True, "type facts + dataflow over MultiState", "Static rule discharge: exclusive-access composition (Freeze + guard ownership), frame composed through the logical ordering, every InsertLocation arm maintains ordering, slot identity, head-only reaping, member rendering refreshed before the MultiProgress limiter decides, draws of finished bars forced, zombie-row ownership pairing, wrap-aware row counts. Not linearizability or alignment arithmetic. Also: orphan text takes the same zombie hand-over branch as MultiProgress::println.", "3/C02"),
    "C03": (True, "pairing-on-all-exits + const-argument + who-may-copy", "Static rule discharge: text rows never enter the erase count; println always forced; orphan lines moved not copied; zombie-row ownership transfer paired on all exits. Not screen contents. Also: finished bars are always drawn forced (their stored rows are on screen when they are dropped); renderer builds Bar rows only. Also: the user closure of suspend runs only under the state lock and the region is wiped through MultiState::clear; only the rows LineAdjust::Keep actually released are counted as zombie rows; orphan text hands the zombie rows over; counted rows are adjacent to the frame (known finding: Bottom-alignment padding).", "3/C03"),
    "C04": (True, "MIR dominance + per-variant arm effects", "Static rule discharge: forced final draw on every finish path, force flag bypasses every limiter, per-variant effects table, drop finishes exactly-once, API->variant map. Not the painted pixels. Also: rows kept for a reaped finished bar are wrap-aware row counts (newtype discipline). Also: the position is set to the length on every path of a finishing variant that has a known length (no extra condition).", "3/C04"),
    "C05": (True, "MIR dominance (gate structure)", "Static rule discharge of the gate structure and of structural necessary conditions of the bucket law: limiter is the only gate for non-forced frames; position updates precede and do not depend on the gate; paint reads live state; every admission advances the reference time from `now` and stores a MAX_BURST-capped capacity, refusals are pure; the constants named by the statement (20 / 10 tokens, 1000 ms / rate, 1 ms). The numeric law over all arrival sequences is NOT decided. Also: every position setter consults the limiter on every path and redraws whenever it admits; a MultiProgress member's rendering is refreshed before the MultiProgress limiter decides. Also: every draw call passes a constant force flag or the caller's own; the limiter compares the whole elapsed Duration; capacity is written by allow/new only.", "3/C05"),
    "C06": (True, "call-graph dominance + taint (non-interference)", "Static rule discharge: terminal effects reachable only through a Drawable built under a visibility test; logical state does not depend on target kind or draw results. Also: remove() hides on every path and changes no logical state.", "3/C06"),
    "C07": (True, "atomic-RMW dataflow + panic-edge ledger", "Static rule discharge: single-RMW discipline on the shared position, update before gate, saturating length arithmetic, fraction clamp, no unaudited panic edge in the position/length API. Also: per-variant effect of finishing on the position (variant-specialised CFG).", "3/C07"),
    "C08": (True, "lock-order/join graph acyclicity over lock classes", "Static rule discharge: lock+join graph acyclic, no guard across blocking waits, stop protocol shape, weak-only ticker captures, no guard in public signatures. 'Promptly' as a time bound is not decided. Also: the ticker thread leaves its loop only on stop/upgrade failure/finished (never on a draw result) and its own code has no unaudited panic edge.", "3/C08"),
    "C09": (True, "MIR dominance (zero cases, update guard) + who-may-write / overwrite-on-all-paths (reset) + source-to-sink dataflow (time-based weights)", "PARTIAL - structural skeleton only. Static rule discharge of the clauses whose truth is in the shape of the code: eta is rate-derived only on edges where the bar is unfinished, the length known and the rate compared non-zero, and zero only on the complementary edges; duration = elapsed + eta on its live path; reset overwrites every history-carrying estimator field from constants/now, estimator fields are written by new/record/reset only, reset_eta/reset/backwards seek all reach it; every smoothing weight is a function of one Instant difference (now - prev_time decay, now - start_time normalisation) and the reported rate is re-weighted for the stall and divided by the total weight; every rate store in record is dominated by edges implying steps and time strictly advanced; no unaudited panic edge. The numeric laws (finite, non-negative, bounded by the largest observed rate, monotone decay, equal to the true rate for steady progress) are NOT decided: they are laws over f64 values and update histories that no sound static argument in reach bounds. Also: an early zero return for remaining == 0 is an accepted zero case; conditions are decided on the constant-folded CFG.", "3/C09"),
    "C10": (True, "panic-edge ledger (totality)", "Static rule discharge of totality: no unaudited panic edge reachable from with_template/template. Of the fidelity half only two structural necessary conditions (rows are the split('\\n') segments of the rendered text, never those of a lossy splitter such as lines(); every placeholder starts from an empty scratch buffer). The rest of rendering fidelity (string equality over the grammar) is NOT decided. Also: a pending '{' is never dropped by a state transition; the parser iterates chars, not bytes; the padded field uses exactly the declared width/alignment/truncate flag.", "3/C10"),
    "C11": (True, "dispatch-table arm-effects vs documented keys", "Static rule discharge: each documented key has an arm that formats the expected accessor with the expected formatter; the shared scratch buffer is fresh for every placeholder; tracker write/tick/reset lifecycle and ordering; final tick string when finished. Not text equality. Also: a known length is rendered unmodified; position and length default are sampled once per frame, before the loop over the template parts.", "3/C11"),
    "C12": (True, "unit (qualifier) inference Cols/Bytes", "Static rule discharge of unit discipline (columns vs bytes never mixed; no column value as byte offset), padding structure per alignment, every width placeholder always goes through the padded field, wide_msg is a truncating rest-of-line field. Rendered width for all strings is NOT decided; the truncation defect is a listed known finding. Also: wide_msg's field width is exactly the rest of the line (independent of the message, never narrowed). Also: the parsed width is stored unchanged; conservation laws on linear forms per alignment: truncation removes exactly the excess, the runs of spaces written around the content add up to width - columns (counted repetitions, constant chunks and prefixes; a run under a condition is not accepted) and sit on the side(s) the alignment chooses.", "3/C12"),
    "C13": (True, "dataflow + comparison-fact (dominating edge) analysis + operand polarity over format_bar / BarDisplay", "PARTIAL - structural clauses only. Static rule discharge: the cell count is the integer quotient width / char_width and the raw width is used for nothing else; filled = truncation of fraction * cells (no rounding call); the partial-cell flag is true exactly under fill > 0 and filled < cells (both strict, nothing else); the partial cell exists iff the flag is set, its index derives from the configured characters and is never increased; background = cells - filled - flag (polarity of each operand) with non-wrapping subtraction, drawn with the last configured character; BarDisplay writes chars[0] filled times, then chars[cur] once, then the background, in that order; format_bar is given ProgressState::fraction(), which is clamped to [0,1]; wide_bar's width is the terminal width minus the measured rest of the line and is never enlarged. NOT decided: off-by-one cell counts / partial-cell indices caused by f32 rounding at particular (fraction, width, charset) triples, monotonicity in the position, exactness up to 2^24 - these need the values. Also: the cached character width is measured on the table installed by the same call; the rendered wide bar is not trimmed.", "3/C13"),
    "C14": (True, "field-invariant producer/consumer + panic ledger", "Static rule discharge: every divisor/index bound the renderer takes from a style table is established by a guard at every public writer of that table; render-path panic ledger. Also: row counts stay finite for every terminal width including 0 (every float division converted to a row count has a divisor that cannot be zero).", "3/C14"),
    "C15": (True, "panic-edge ledger (totality)", "Static rule discharge of totality: no unaudited panic edge in format.rs Display impls; plus one structural faithfulness clause (HumanCount digits come from u64 formatting, no float detour). Rounding/monotonicity NOT decided. Also: the grouped integer digits pass through no character-removing operation. Also: the byte-unit wrappers delegate the choice of prefix to NumberPrefix; FormattedDuration's displayed numbers are exactly S/86400, S/3600%24, S/60%60, S%60 of the whole seconds (flow-sensitive symbolic evaluation, div/mod normal forms, lossless casts), in order, days omitted only when zero.", "3/C15"),
    "C16": (True, "setter/holder completeness dataflow", "Static rule discharge: every text setter expands with the bar's current width; every width/style change reaches every holder of expanded text; cache invalidation pairing; encapsulation of the raw text. Also: literals produced by the parser's backtrack arm go through the tab-aware constructor.", "3/C16"),
    "C17": (True, "wrapper transparency + effect placement + sibling agreement", "Static rule discharge over every trait method implemented for ProgressBarIter and the rayon wrappers: arguments/results pass through, count exactly once on success from the transferred amount, sync/async siblings agree. Not rayon scheduling. Also: with all failure edges of tests on the wrapped result removed, every path to a return executes the counting effect (no extra condition guards the count).", "3/C17"),
    "C18": (True, "error-discipline rules over MIR (no-unwrap, pure Err exits, commit-on-success, result reporting)", "Static rule discharge: no io::Result is unwrapped; Err exits are pure; commit only after a successful flush; explicit io::Result APIs return the draw result. Also: no io::Result is swallowed inside an io::Result-returning function (Err-discarding combinators); a failed terminal operation is never re-issued from its own error edge. Also: the ticker thread does not exit on a draw error; no assertion, unwrap or unguarded row subtraction depends on the on-screen row count (committed only on success, hence stale after a failed draw).", "3/C18"),
    "C19": (True, "who-constructs (newtype) + control dependence", "Static rule discharge: row accounting uses the wrap-aware measure everywhere, painting of bar lines is guarded by the terminal height, committed count equals painted rows. Not the wrap arithmetic itself. Also: bar rows are the split('\\n') segments of the rendered text; the renderer builds Bar rows only. Also: every path of the paint loop writes the current line unless it leaves the loop at the height test; the Bottom-alignment shift uses the whole frame height.", "3/C19"),
}

NA = {
}


def main():
    checks = []
    na = [{"property_id": k, "reason": v} for k, v in sorted(NA.items())]
    for pid, (impl, tech, text, ref) in sorted(P.items()):
        if not impl:
            na.append({"property_id": pid, "reason": "check under construction in this round (planned: %s); not claimed until the rule set runs clean" % tech})
            continue
        checks.append({
            "property_id": pid,
            "quick_cmd": "./check %s --tier quick" % pid,
            "thorough_cmd": "./check %s --tier thorough" % pid,
            "evidence_file": "evidence/%s.json" % pid,
            "replay_cmd_template": "./check %s --replay {path}" % pid,
            "engine": "ivdriver+rules",
            "level_claimed": {"category": "other", "text": text, "design_ref": "DESIGN.md section " + ref},
            "level_note": NOTE,
            "technique": "static analysis: " + tech,
        })
    m = {
        "version": 1,
        "setup_cmd": "cd driver && CARGO_NET_OFFLINE=true cargo build --release --offline",
        "hooks": {
            "guard": "none",
            "enable": "no hooks: the analysis reads the compiler's view (MIR) of the unmodified source via RUSTC_WORKSPACE_WRAPPER",
            "baseline_off_cmd": "cd /repo && cargo test --workspace --no-fail-fast --offline",
            "source_commits": [],
            "add_only": True,
        },
        "engines": [
            {"name": "ivdriver", "path": "driver/", "serves_properties": sorted(k for k, v in P.items() if v[0]),
             "kind_free_text": "rustc_private compiler driver (zero deps) dumping MIR facts: resolved callees, types, elaborated drops, asserts, ADTs, signatures"},
            {"name": "rules", "path": "rules/", "serves_properties": sorted(k for k, v in P.items() if v[0]),
             "kind_free_text": "Python stdlib rule engine: CFG reachability/dominance with jump threading, backward data slices, call graph, lock graph, panic-edge ledger, unit qualifiers, wrapper analysis"},
        ],
        "checks": checks,
        "not_applicable": sorted(na, key=lambda x: x["property_id"]),
        "notes": "All checks are static (no indicatif code is executed). Quick = configurations default + all-features; thorough = 8 feature configurations + mutant corpus (checker sensitivity). /repo fix: commits are listed in known_findings.toml.",
    }
    with open(os.path.join(VERIF, "MANIFEST.json"), "w") as fh:
        json.dump(m, fh, indent=1)
    print("claimed:", [c["property_id"] for c in checks])


if __name__ == "__main__":
    main()
