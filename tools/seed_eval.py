#!/usr/bin/env python3
"""Evaluate an independently written seeded change: confirm (compiles, baseline green, demo fails with /
passes without), then run every claimed check against the patched tree. Usage: seed_eval.py <ID> <patch> <demo.rs> [features]"""
import json
import os
import shutil
import subprocess
import sys

V = os.path.dirname(os.path.dirname(os.path.abspath(__file__)))
sid, patch, demo = sys.argv[1], sys.argv[2], sys.argv[3]
feats = sys.argv[4] if len(sys.argv) > 4 else ""
wt = "/tmp/vw-%s" % sid
env = dict(os.environ, CARGO_NET_OFFLINE="true", CARGO_TARGET_DIR="/tmp/vw-target-%s" % sid)  # per seed: evaluations may run in parallel


def sh(cmd, cwd=None, **kw):
    return subprocess.run(cmd, shell=True, cwd=cwd, env=env, capture_output=True, text=True, **kw)


subprocess.run("git -C /repo worktree remove --force %s" % wt, shell=True, capture_output=True)
assert sh("git -C /repo worktree add --detach %s HEAD" % wt).returncode == 0
res = {"id": sid}
try:
    r = sh("git apply %s" % patch, cwd=wt)
    res["patch_applies"] = r.returncode == 0
    if r.returncode != 0:
        print(r.stderr)
        raise SystemExit(1)
    shutil.copy(demo, os.path.join(wt, "tests", os.path.basename(demo)))
    fflag = ("--features " + feats) if feats else ""
    demo_name = os.path.splitext(os.path.basename(demo))[0]
    # baseline (without the demo file influencing: run lib + the pre-existing integration tests + doc tests)
    r = sh("cargo test --offline --workspace --no-fail-fast --lib --test multi-autodrop --test render 2>&1 | grep -E '^test result|FAILED' ", cwd=wt)
    res["baseline_default"] = r.stdout.strip().splitlines()
    r = sh("cargo test --offline --features tokio,rayon,futures,in_memory,improved_unicode --lib --test render 2>&1 | grep -E '^test result|FAILED|^error'", cwd=wt)
    res["baseline_allfeatures"] = r.stdout.strip().splitlines()
    r = sh("cargo test --offline %s --test %s 2>&1 | grep -E '^test |^test result|^error' " % (fflag, demo_name), cwd=wt)
    res["demo_with_change"] = r.stdout.strip().splitlines()
    # checks on the patched tree
    det = {}
    m = json.load(open(os.path.join(V, "MANIFEST.json")))
    for c in m["checks"]:
        pid = c["property_id"]
        e2 = dict(os.environ, VERIF_REPO=wt, VERIF_NO_EVIDENCE="1")
        rr = subprocess.run([os.path.join(V, "check"), pid], env=e2, capture_output=True, text=True, cwd=V)
        fails = [l for l in rr.stdout.splitlines() if l.startswith("FAIL rule=") or l.startswith("ANCHOR-LOST")]
        if rr.returncode != 0:
            det[pid] = fails[:5]
    res["detected_by"] = det
    sh("git apply -R %s" % patch, cwd=wt)
    r = sh("cargo test --offline %s --test %s 2>&1 | grep -E '^test |^test result|^error' " % (fflag, demo_name), cwd=wt)
    res["demo_without_change"] = r.stdout.strip().splitlines()
finally:
    subprocess.run("git -C /repo worktree remove --force %s" % wt, shell=True, capture_output=True)
    shutil.rmtree("/tmp/vw-target-%s" % sid, ignore_errors=True)
print(json.dumps(res, indent=1))
json.dump(res, open("/tmp/seed_eval_%s.json" % sid, "w"), indent=1)
