#!/usr/bin/env python3
"""Re-run every claimed check against each stored seeded change (scratch copy of /repo + patch). Updates
meta.json `detected_by`/`reports`. Usage: seed_check.py [ids...]"""
import glob, json, os, shutil, subprocess, sys, tempfile
V = os.path.dirname(os.path.dirname(os.path.abspath(__file__)))
sys.path.insert(0, V)
from rules import mutants, extract
ids = sys.argv[1:]
man = json.load(open(os.path.join(V, "MANIFEST.json")))
for d in sorted(glob.glob(os.path.join(V, "seeded", "*"))):
    sid = os.path.basename(d)
    if ids and sid not in ids:
        continue
    scratch = mutants.make_scratch(extract.repo_root())
    try:
        r = subprocess.run(["git", "apply", "--unsafe-paths", "--directory=" + scratch, os.path.join(d, "patch.diff")], capture_output=True, text=True, cwd="/")
        if r.returncode != 0:
            r = subprocess.run("patch -p1 -d %s < %s" % (scratch, os.path.join(d, "patch.diff")), shell=True, capture_output=True, text=True)
            if r.returncode != 0:
                print(sid, "PATCH DOES NOT APPLY", r.stderr[:200])
                continue
        det = {}
        for c in man["checks"]:
            pid = c["property_id"]
            code, out, err = mutants.run_check_on(scratch, pid)
            fails = [l for l in out.splitlines() if l.startswith("FAIL rule=") or l.startswith("ANCHOR-LOST")]
            if code != 0:
                det[pid] = fails[:5]
        m = json.load(open(os.path.join(d, "meta.json")))
        m["reports"] = det
        m["detected_by"] = ", ".join("%s (%s)" % (k, "; ".join(sorted({l.split(" ")[1].replace("rule=", "") for l in v if l.startswith("FAIL")} or {"anchor"}))) for k, v in sorted(det.items())) or "NOT DETECTED"
        json.dump(m, open(os.path.join(d, "meta.json"), "w"), indent=1)
        print(sid, m["property"], "->", m["detected_by"])
    finally:
        shutil.rmtree(scratch, ignore_errors=True)
