#!/usr/bin/env python3
"""seed_save.py <ID> <property> <patch> <demo.rs> <features> <idea> <needs>"""
import json, os, shutil, sys
V = os.path.dirname(os.path.dirname(os.path.abspath(__file__)))
sid, prop, patch, demo, feats, idea, needs = sys.argv[1:8]
d = os.path.join(V, "seeded", sid)
os.makedirs(d, exist_ok=True)
shutil.copy(patch, os.path.join(d, "patch.diff"))
shutil.copy(demo, os.path.join(d, os.path.basename(demo)))
ev = json.load(open("/tmp/seed_eval_%s.json" % sid))
det = ev.get("detected_by", {})
meta = {
    "id": sid, "property": prop, "idea": idea, "needs": needs,
    "demonstration": "copy %s into tests/ of a worktree with patch.diff applied; cargo test --offline %s --test %s (fails with the patch, passes without)" % (
        os.path.basename(demo), ("--features " + feats) if feats else "", os.path.splitext(os.path.basename(demo))[0]),
    "confirmed": {k: ev.get(k) for k in ("patch_applies", "baseline_default", "baseline_allfeatures", "demo_with_change", "demo_without_change")},
    "what_i_ran": "tools/seed_eval.py: fresh worktree of /repo HEAD, git apply patch.diff, baseline lib+integration tests (default and all features), demo with and without the patch, then every claimed check with VERIF_REPO=<patched worktree>",
    "detected_by": ", ".join("%s (%s)" % (k, "; ".join(sorted({l.split(" ")[1].replace("rule=", "") for l in v if l.startswith("FAIL")} or {"anchor"}))) for k, v in sorted(det.items())) or "NOT DETECTED",
    "reports": det,
    "source": "independent sub-agent given only the property text and a scratch worktree",
}
json.dump(meta, open(os.path.join(d, "meta.json"), "w"), indent=1)
print(meta["detected_by"])
