#!/usr/bin/env python3
"""Convert the stored sub-agent seeds (seeded/<id>/patch.diff) into corpus mutants (mutants/<prop>/seed_<id>.json):
each hunk becomes one old/new text edit (context lines included). Only seeds reported by a rule of their own property."""
import glob
import json
import os
import re
import sys

V = os.path.dirname(os.path.dirname(os.path.abspath(__file__)))
REPO = os.environ.get("VERIF_REPO", "/repo")


def hunks(patch):
    edits, cur_file, old, new = [], None, None, None

    def flush():
        if cur_file and old is not None and (old != new):
            edits.append({"file": cur_file, "old": "".join(old), "new": "".join(new)})
    for line in patch.splitlines(keepends=True):
        if line.startswith("+++ b/"):
            flush()
            cur_file, old, new = line[6:].strip(), None, None
        elif line.startswith("--- ") or line.startswith("diff ") or line.startswith("index "):
            continue
        elif line.startswith("@@"):
            flush()
            old, new = [], []
        elif old is not None:
            if line.startswith(" "):
                old.append(line[1:]); new.append(line[1:])
            elif line.startswith("-"):
                old.append(line[1:])
            elif line.startswith("+"):
                new.append(line[1:])
            elif line.startswith("\\"):
                pass
    flush()
    return edits


made = 0
for d in sorted(glob.glob(os.path.join(V, "seeded", "*"))):
    meta = json.load(open(os.path.join(d, "meta.json")))
    sid, prop = meta["id"], meta["property"]
    own = meta.get("reports", {}).get(prop) or []
    rules = [re.search(r"rule=(\S+)", l).group(1) for l in own if l.startswith("FAIL rule=")]
    if not rules:
        continue
    edits = hunks(open(os.path.join(d, "patch.diff")).read())
    ok = True
    for e in edits:
        src = open(os.path.join(REPO, e["file"])).read()
        if src.count(e["old"]) != 1:
            ok = False
    if not ok or not edits:
        print("skip", sid, "(hunk context not unique)")
        continue
    out = os.path.join(V, "mutants", prop, "seed_%s.json" % sid)
    os.makedirs(os.path.dirname(out), exist_ok=True)
    json.dump({"property": prop, "expect_rule": rules[0], "description": "sub-agent seed %s: %s" % (sid, meta["idea"]), "edits": edits,
               "compiles_and_tests_pass": True, "verify_note": "confirmed by tools/seed_eval.py (baseline lib+integration tests green with default and all features)",
               "role": "realistic: compiles, baseline tests green, breaks the property", "source": "seeded/%s" % sid}, open(out, "w"), indent=1)
    made += 1
print("mutants written:", made)
