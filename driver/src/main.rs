//! ivdriver: rustc_private driver that dumps a JSON fact file (MIR bodies with resolved
//! callees, types, ADTs, impls) for the crate named by IV_CRATE (default "indicatif").
//! Used as RUSTC_WORKSPACE_WRAPPER: argv[1] is the real rustc path and is dropped.
#![feature(rustc_private)]
#![allow(clippy::all)]

extern crate rustc_abi;
extern crate rustc_data_structures;
extern crate rustc_driver;
extern crate rustc_hir;
extern crate rustc_interface;
extern crate rustc_middle;
extern crate rustc_span;

mod json;

use json::J;
use rustc_driver::Compilation;
use rustc_hir::def::DefKind;
use rustc_hir::def_id::{DefId, LOCAL_CRATE};
use rustc_interface::interface::Compiler;
use rustc_middle::mir::{
    self, AggregateKind, AssertKind, BasicBlock, Body, BorrowKind, Const as MirConst, ConstValue,
    Operand, Place, PlaceElem, Rvalue, StatementKind, TerminatorKind, UnwindAction,
};
use rustc_middle::ty::print::with_no_trimmed_paths;
use rustc_middle::ty::{self, GenericArgsRef, Instance, Ty, TyCtxt, TypingEnv};
use rustc_span::Span;
use std::collections::{BTreeSet, HashSet};

struct Cb;

fn crate_wanted() -> String {
    std::env::var("IV_CRATE").unwrap_or_else(|_| "indicatif".to_string())
}

impl rustc_driver::Callbacks for Cb {
    fn after_analysis<'tcx>(&mut self, _c: &Compiler, tcx: TyCtxt<'tcx>) -> Compilation {
        let name = tcx.crate_name(LOCAL_CRATE).to_string();
        if name != crate_wanted() {
            return Compilation::Continue;
        }
        // Only the library target (cargo also builds bins/examples/tests with the wrapper).
        let out = match std::env::var("IV_OUT") {
            Ok(o) => o,
            Err(_) => return Compilation::Continue,
        };
        if tcx.sess.opts.test {
            return Compilation::Continue;
        }
        let facts = with_no_trimmed_paths!(dump_crate(tcx));
        let mut s = String::with_capacity(1 << 24);
        facts.write(&mut s);
        let tmp = format!("{}.tmp{}", out, std::process::id());
        std::fs::write(&tmp, s).expect("write facts");
        std::fs::rename(&tmp, &out).expect("rename facts");
        Compilation::Continue
    }
}

fn main() {
    let mut args: Vec<String> = std::env::args().collect();
    // RUSTC_WORKSPACE_WRAPPER: argv = [driver, rustc, rustc-args...]
    if args.len() > 1 && (args[1].ends_with("rustc") || args[1].contains("/rustc")) {
        args.remove(1);
    }
    let mut cb = Cb;
    rustc_driver::run_compiler(&args, &mut cb);
}

// ---------------------------------------------------------------------------------------------

fn span_loc<'tcx>(tcx: TyCtxt<'tcx>, sp: Span) -> (String, usize) {
    let sm = tcx.sess.source_map();
    // Use the call-site of macro expansions so that `?`/format_args etc. point to user code.
    let sp = sp.source_callsite();
    let lo = sm.lookup_char_pos(sp.lo());
    let file = match &lo.file.name {
        rustc_span::FileName::Real(r) => match r.local_path() {
            Some(p) => p.to_string_lossy().to_string(),
            None => format!("{:?}", lo.file.name),
        },
        other => format!("{:?}", other),
    };
    (file, lo.line)
}

fn dpath<'tcx>(tcx: TyCtxt<'tcx>, did: DefId) -> String {
    tcx.def_path_str(did)
}

fn ty_s<'tcx>(t: Ty<'tcx>) -> String {
    format!("{}", t)
}

fn vis_s<'tcx>(tcx: TyCtxt<'tcx>, did: DefId) -> String {
    match tcx.def_kind(did) {
        DefKind::Fn | DefKind::AssocFn | DefKind::Struct | DefKind::Enum | DefKind::Union
        | DefKind::Trait | DefKind::Field | DefKind::Variant | DefKind::Const { .. }
        | DefKind::AssocConst { .. } | DefKind::Static { .. } | DefKind::TyAlias | DefKind::Mod => {}
        _ => return "na".to_string(),
    }
    match tcx.visibility(did) {
        ty::Visibility::Public => "pub".to_string(),
        ty::Visibility::Restricted(m) => {
            if m.is_crate_root() {
                "crate".to_string()
            } else {
                format!("in:{}", tcx.def_path_str(m))
            }
        }
    }
}

/// ADT paths (without args) reachable by *owning* containment from `t`, stopping at references
/// and raw pointers. Used for: which guard types a value holds, which user Drop impls a drop runs.
struct TyWalk<'tcx> {
    tcx: TyCtxt<'tcx>,
    seen: HashSet<Ty<'tcx>>,
    /// guard types found: (guard adt path, inner type string)
    guards: BTreeSet<(String, String)>,
    /// ADTs (path with args) that have a Drop impl, with the impl's drop fn path
    drops: BTreeSet<(String, String)>,
    /// all ADT paths seen
    adts: BTreeSet<String>,
    /// interior mutability seen (UnsafeCell / atomics) – for Freeze facts
    budget: usize,
}

const GUARDS: &[&str] = &[
    "std::sync::MutexGuard",
    "std::sync::RwLockReadGuard",
    "std::sync::RwLockWriteGuard",
    "std::sync::poison::MutexGuard",
    "std::sync::poison::RwLockReadGuard",
    "std::sync::poison::RwLockWriteGuard",
    "std::sync::nonpoison::MutexGuard",
];

impl<'tcx> TyWalk<'tcx> {
    fn new(tcx: TyCtxt<'tcx>) -> Self {
        TyWalk {
            tcx,
            seen: HashSet::new(),
            guards: BTreeSet::new(),
            drops: BTreeSet::new(),
            adts: BTreeSet::new(),
            budget: 4000,
        }
    }

    fn walk(&mut self, t: Ty<'tcx>) {
        if self.budget == 0 || !self.seen.insert(t) {
            return;
        }
        self.budget -= 1;
        match t.kind() {
            ty::Adt(def, args) => {
                let path = self.tcx.def_path_str(def.did());
                self.adts.insert(path.clone());
                if GUARDS.iter().any(|g| *g == path) || path.ends_with("MutexGuard")
                    || path.ends_with("RwLockReadGuard") || path.ends_with("RwLockWriteGuard")
                {
                    let inner = args.types().next().map(ty_s).unwrap_or_default();
                    self.guards.insert((path, inner));
                    return; // a guard does not own the protected value
                }
                if path == "std::sync::Weak" || path == "std::rc::Weak"
                    || path == "std::marker::PhantomData"
                {
                    return;
                }
                if let Some(d) = self.tcx.adt_destructor(def.did()) {
                    self.drops.insert((ty_s(t), self.tcx.def_path_str(d.did)));
                }
                // Owned generic arguments (Arc<T>, Box<T>, Vec<T>, Option<T>, Mutex<T>, ...):
                // std containers own their T through raw pointers the field walk cannot see.
                if !def.did().is_local() {
                    for a in args.types() {
                        self.walk(a);
                    }
                }
                if def.did().is_local() || def.is_enum() || path.starts_with("std::option")
                    || path.starts_with("std::result")
                {
                    for v in def.variants() {
                        for f in &v.fields {
                            let fty = f.ty(self.tcx, args);
                            self.walk(fty);
                        }
                    }
                }
            }
            ty::Tuple(ts) => {
                for x in ts.iter() {
                    self.walk(x);
                }
            }
            ty::Array(e, _) | ty::Slice(e) => self.walk(*e),
            ty::Closure(_, args) => {
                for x in args.as_closure().upvar_tys() {
                    self.walk(x);
                }
            }
            ty::Dynamic(..) => {
                self.adts.insert(format!("dyn:{}", ty_s(t)));
            }
            // stop at references / raw pointers / fn pointers / params
            _ => {}
        }
    }
}

fn ty_facts<'tcx>(tcx: TyCtxt<'tcx>, t: Ty<'tcx>) -> Vec<(&'static str, J)> {
    let mut w = TyWalk::new(tcx);
    w.walk(t);
    let mut v = vec![("ty", J::s(ty_s(t)))];
    if !w.guards.is_empty() {
        v.push((
            "guards",
            J::Arr(w.guards.iter().map(|(g, i)| J::Arr(vec![J::s(g.clone()), J::s(i.clone())])).collect()),
        ));
    }
    if !w.drops.is_empty() {
        v.push((
            "drops",
            J::Arr(w.drops.iter().map(|(g, i)| J::Arr(vec![J::s(g.clone()), J::s(i.clone())])).collect()),
        ));
    }
    v.push(("adts", J::Arr(w.adts.iter().map(|a| J::s(a.clone())).collect())));
    // outermost constructor, peeling references
    let mut cur = t;
    let mut refs = 0;
    loop {
        match cur.kind() {
            ty::Ref(_, inner, _) => {
                cur = *inner;
                refs += 1;
            }
            _ => break,
        }
    }
    v.push(("refs", J::Int(refs)));
    match cur.kind() {
        ty::Adt(def, args) => {
            v.push(("head", J::s(tcx.def_path_str(def.did()))));
            v.push(("targs", J::Arr(args.types().map(|a| J::s(ty_s(a))).collect())));
        }
        ty::Closure(did, _) => {
            v.push(("head", J::s("closure")));
            v.push(("closure", J::s(tcx.def_path_str(*did))));
        }
        ty::Param(p) => v.push(("head", J::s(format!("param:{}", p.name)))),
        ty::Dynamic(..) => v.push(("head", J::s("dyn"))),
        ty::Tuple(_) => v.push(("head", J::s("tuple"))),
        ty::Bool | ty::Char | ty::Int(_) | ty::Uint(_) | ty::Float(_) | ty::Str => {
            v.push(("head", J::s(ty_s(cur))))
        }
        _ => {}
    }
    v
}

struct BodyCx<'a, 'tcx> {
    tcx: TyCtxt<'tcx>,
    body: &'a Body<'tcx>,
    def: DefId,
    tenv: TypingEnv<'tcx>,
}

impl<'a, 'tcx> BodyCx<'a, 'tcx> {
    fn place(&self, p: &Place<'tcx>) -> J {
        let tcx = self.tcx;
        let mut pty = mir::PlaceTy::from_ty(self.body.local_decls[p.local].ty);
        let mut proj = Vec::new();
        for elem in p.projection.iter() {
            let e = match elem {
                PlaceElem::Deref => J::s("*"),
                PlaceElem::Field(f, fty) => {
                    let mut o: Vec<(&'static str, J)> = vec![("f", J::Int(f.as_usize() as i128))];
                    match pty.ty.kind() {
                        ty::Adt(def, _) => {
                            let vi = pty.variant_index.unwrap_or(rustc_abi::FIRST_VARIANT);
                            let v = def.variant(vi);
                            o.push(("n", J::s(v.fields[f].name.to_string())));
                            o.push(("adt", J::s(tcx.def_path_str(def.did()))));
                            o.push(("v", J::s(v.name.to_string())));
                        }
                        ty::Closure(did, _) => {
                            o.push(("adt", J::s("closure")));
                            o.push(("closure", J::s(tcx.def_path_str(*did))));
                            // upvar name
                            let names = tcx.closure_saved_names_of_captured_variables(*did);
                            if let Some(n) = names.get(f) {
                                o.push(("n", J::s(n.to_string())));
                            }
                        }
                        ty::Tuple(_) => {
                            o.push(("adt", J::s("tuple")));
                            o.push(("n", J::s(f.as_usize().to_string())));
                        }
                        _ => {}
                    }
                    o.push(("fty", J::s(ty_s(fty))));
                    J::Obj(o)
                }
                PlaceElem::Index(l) => J::Obj(vec![("ix", J::Int(l.as_usize() as i128))]),
                PlaceElem::ConstantIndex { offset, from_end, .. } => J::Obj(vec![
                    ("cix", J::Int(offset as i128)),
                    ("from_end", J::Bool(from_end)),
                ]),
                PlaceElem::Subslice { from, to, from_end } => J::Obj(vec![
                    ("sub", J::Arr(vec![J::Int(from as i128), J::Int(to as i128)])),
                    ("from_end", J::Bool(from_end)),
                ]),
                PlaceElem::Downcast(name, _) => J::Obj(vec![(
                    "dc",
                    J::s(name.map(|s| s.to_string()).unwrap_or_default()),
                )]),
                PlaceElem::OpaqueCast(_) => J::s("opaque"),
                PlaceElem::UnwrapUnsafeBinder(_) => J::s("unbind"),
            };
            proj.push(e);
            pty = pty.projection_ty(tcx, elem);
        }
        J::Obj(vec![
            ("l", J::Int(p.local.as_usize() as i128)),
            ("p", J::Arr(proj)),
            ("ty", J::s(ty_s(pty.ty))),
        ])
    }

    fn konst(&self, c: &mir::ConstOperand<'tcx>) -> J {
        let tcx = self.tcx;
        let ty = c.const_.ty();
        let mut o: Vec<(&'static str, J)> = vec![("k", J::s("const")), ("ty", J::s(ty_s(ty)))];
        match ty.kind() {
            ty::FnDef(did, args) => {
                o.push(("fn", J::s(tcx.def_path_str(*did))));
                o.push(("fn_full", J::s(tcx.def_path_str_with_args(*did, args))));
            }
            ty::Closure(did, _) => {
                o.push(("closure", J::s(tcx.def_path_str(*did))));
            }
            _ => {}
        }
        // named constants (e.g. `Duration::ZERO`): keep the path of the item
        if let MirConst::Unevaluated(u, _) = c.const_ {
            o.push(("cdef", J::s(tcx.def_path_str(u.def))));
        }
        // Evaluate
        let val: Option<ConstValue> = match c.const_ {
            MirConst::Val(v, _) => Some(v),
            _ => c.const_.eval(tcx, self.tenv, c.span).ok(),
        };
        if let Some(v) = val {
            match v {
                ConstValue::Scalar(s) => {
                    // promoted `&<int>` constants (e.g. the precision argument of `{:.*}`)
                    if let (ty::Ref(_, inner, _), rustc_middle::mir::interpret::Scalar::Ptr(ptr, _)) = (ty.kind(), s) {
                        if matches!(inner.kind(), ty::Uint(_) | ty::Int(_)) {
                            let (prov, off) = ptr.into_raw_parts();
                            if let Some(rustc_middle::mir::interpret::GlobalAlloc::Memory(a)) = tcx.try_get_global_alloc(prov.alloc_id()) {
                                let a = a.inner();
                                let size = match inner.kind() {
                                    ty::Uint(u) => u.bit_width().unwrap_or(64) / 8,
                                    ty::Int(i) => i.bit_width().unwrap_or(64) / 8,
                                    _ => 8,
                                } as usize;
                                let start = off.bytes() as usize;
                                if start + size <= a.len() {
                                    let bytes = a.inspect_with_uninit_and_ptr_outside_interpreter(start..start + size);
                                    let mut v: u128 = 0;
                                    for (i, b) in bytes.iter().enumerate() {
                                        v |= (*b as u128) << (8 * i);
                                    }
                                    o.push(("ref_v", J::Int(v as i128)));
                                }
                            }
                        }
                    }
                    // promoted `&<small struct>` constants (e.g. `&DAY` for `DAY.as_secs()`): the pointee's bytes
                    if let (ty::Ref(_, inner, _), rustc_middle::mir::interpret::Scalar::Ptr(ptr, _)) = (ty.kind(), s) {
                        let is_bytes = matches!(inner.kind(), ty::Array(e, _) if matches!(e.kind(), ty::Uint(ty::UintTy::U8)));
                        if matches!(inner.kind(), ty::Adt(..)) || is_bytes {
                            if let Ok(layout) = tcx.layout_of(self.tenv.as_query_input(*inner)) {
                                let size = layout.size.bytes() as usize;
                                let (prov, off) = ptr.into_raw_parts();
                                if let Some(rustc_middle::mir::interpret::GlobalAlloc::Memory(a)) = tcx.try_get_global_alloc(prov.alloc_id()) {
                                    let a = a.inner();
                                    let start = off.bytes() as usize;
                                    if size > 0 && (size <= 32 || (is_bytes && size <= 1024)) && start + size <= a.len() {
                                        let bytes = a.inspect_with_uninit_and_ptr_outside_interpreter(start..start + size);
                                        let hex: String = bytes.iter().map(|b| format!("{:02x}", b)).collect();
                                        o.push(("ref_hex", J::s(hex)));
                                        if let rustc_abi::FieldsShape::Arbitrary { offsets, .. } = &layout.fields {
                                            let offs: Vec<J> = offsets.iter().map(|x| J::Int(x.bytes() as i128)).collect();
                                            o.push(("foff", J::Arr(offs)));
                                        }
                                    }
                                }
                            }
                        }
                    }
                    if let Ok(si) = s.try_to_scalar_int() {
                        let size = si.size();
                        let bits = si.to_bits(size);
                        match ty.kind() {
                            ty::Bool => o.push(("v", J::Bool(bits != 0))),
                            ty::Int(_) => {
                                let sh = 128 - size.bits();
                                let sv = ((bits << sh) as i128) >> sh;
                                o.push(("v", J::Int(sv)));
                            }
                            ty::Uint(_) => {
                                if bits <= i128::MAX as u128 {
                                    o.push(("v", J::Int(bits as i128)))
                                } else {
                                    o.push(("v", J::s(bits.to_string())))
                                }
                            }
                            ty::Char => {
                                o.push(("v", J::s(char::from_u32(bits as u32).map(|c| c.to_string()).unwrap_or_default())));
                                o.push(("char", J::Bool(true)));
                            }
                            ty::Float(ft) => {
                                let f = match ft.bit_width() {
                                    32 => f32::from_bits(bits as u32) as f64,
                                    64 => f64::from_bits(bits as u64),
                                    _ => f64::NAN,
                                };
                                o.push(("v", J::s(format!("{:?}", f))));
                                o.push(("float", J::Bool(true)));
                            }
                            _ => o.push(("bits", J::s(bits.to_string()))),
                        }
                    }
                }
                ConstValue::Slice { .. } => {
                    let is_str = matches!(ty.kind(), ty::Ref(_, inner, _) if inner.is_str());
                    if is_str {
                        if let Some(b) = v.try_get_slice_bytes_for_diagnostics(tcx) {
                            o.push(("v", J::s(String::from_utf8_lossy(b).to_string())));
                            o.push(("str", J::Bool(true)));
                        }
                    }
                }
                ConstValue::ZeroSized => {
                    o.push(("zst", J::Bool(true)));
                }
                ConstValue::Indirect { alloc_id, offset } => {
                    // aggregate constants: record whether every byte is zero (Duration::ZERO, zeroed structs)
                    if let Ok(layout) = tcx.layout_of(self.tenv.as_query_input(ty)) {
                        let size = layout.size.bytes() as usize;
                        if let Some(rustc_middle::mir::interpret::GlobalAlloc::Memory(a)) = tcx.try_get_global_alloc(alloc_id) {
                            let a = a.inner();
                            let start = offset.bytes() as usize;
                            if size > 0 && start + size <= a.len() {
                                let bytes = a.inspect_with_uninit_and_ptr_outside_interpreter(start..start + size);
                                o.push(("allzero", J::Bool(bytes.iter().all(|b| *b == 0))));
                                if size <= 32 {
                                    // small aggregate constants (a named Duration, ...): the bytes and the field offsets
                                    let hex: String = bytes.iter().map(|b| format!("{:02x}", b)).collect();
                                    o.push(("hex", J::s(hex)));
                                    if let rustc_abi::FieldsShape::Arbitrary { offsets, .. } = &layout.fields {
                                        let offs: Vec<J> = offsets.iter().map(|x| J::Int(x.bytes() as i128)).collect();
                                        o.push(("foff", J::Arr(offs)));
                                    }
                                }
                            }
                        }
                    }
                    let is_str = matches!(ty.kind(), ty::Ref(_, inner, _) if inner.is_str());
                    if is_str {
                        if let Some(b) = v.try_get_slice_bytes_for_diagnostics(tcx) {
                            o.push(("v", J::s(String::from_utf8_lossy(b).to_string())));
                            o.push(("str", J::Bool(true)));
                        }
                    }
                }
            }
        } else {
            o.push(("uneval", J::s(format!("{}", c.const_))));
        }
        J::Obj(o)
    }

    fn operand(&self, op: &Operand<'tcx>) -> J {
        match op {
            Operand::Copy(p) => J::Obj(vec![("k", J::s("copy")), ("place", self.place(p))]),
            Operand::Move(p) => J::Obj(vec![("k", J::s("move")), ("place", self.place(p))]),
            Operand::Constant(c) => self.konst(c),
            #[allow(unreachable_patterns)]
            _ => J::Obj(vec![("k", J::s("other")), ("dbg", J::s(format!("{:?}", op)))]),
        }
    }

    fn rvalue(&self, rv: &Rvalue<'tcx>) -> J {
        let tcx = self.tcx;
        match rv {
            Rvalue::Use(op, ..) => J::Obj(vec![("k", J::s("use")), ("op", self.operand(op))]),
            Rvalue::Repeat(op, n) => J::Obj(vec![
                ("k", J::s("repeat")),
                ("op", self.operand(op)),
                ("n", J::s(format!("{}", n))),
            ]),
            Rvalue::Ref(_, bk, p) => J::Obj(vec![
                ("k", J::s("ref")),
                ("mut", J::Bool(matches!(bk, BorrowKind::Mut { .. }))),
                ("place", self.place(p)),
            ]),
            Rvalue::RawPtr(_, p) => J::Obj(vec![("k", J::s("rawptr")), ("place", self.place(p))]),
            Rvalue::Cast(ck, op, t) => J::Obj(vec![
                ("k", J::s("cast")),
                ("ck", J::s(format!("{:?}", ck))),
                ("op", self.operand(op)),
                ("ty", J::s(ty_s(*t))),
            ]),
            Rvalue::BinaryOp(op, ab) => J::Obj(vec![
                ("k", J::s("bin")),
                ("op", J::s(format!("{:?}", op))),
                ("a", self.operand(&ab.0)),
                ("b", self.operand(&ab.1)),
            ]),
            Rvalue::UnaryOp(op, a) => J::Obj(vec![
                ("k", J::s("un")),
                ("op", J::s(format!("{:?}", op))),
                ("a", self.operand(a)),
            ]),
            Rvalue::Discriminant(p) => J::Obj(vec![("k", J::s("discr")), ("place", self.place(p))]),
            Rvalue::CopyForDeref(p) => J::Obj(vec![("k", J::s("copyderef")), ("place", self.place(p))]),
            Rvalue::Aggregate(kind, ops) => {
                let mut o: Vec<(&'static str, J)> = vec![("k", J::s("agg"))];
                match &**kind {
                    AggregateKind::Array(t) => {
                        o.push(("ak", J::s("array")));
                        o.push(("ety", J::s(ty_s(*t))));
                    }
                    AggregateKind::Tuple => o.push(("ak", J::s("tuple"))),
                    AggregateKind::Adt(did, vi, args, _, _) => {
                        o.push(("ak", J::s("adt")));
                        let def = tcx.adt_def(*did);
                        o.push(("adt", J::s(tcx.def_path_str(*did))));
                        let v = def.variant(*vi);
                        o.push(("variant", J::s(v.name.to_string())));
                        o.push((
                            "fields",
                            J::Arr(v.fields.iter().map(|f| J::s(f.name.to_string())).collect()),
                        ));
                        o.push(("targs", J::Arr(args.types().map(|a| J::s(ty_s(a))).collect())));
                    }
                    AggregateKind::Closure(did, _) => {
                        o.push(("ak", J::s("closure")));
                        o.push(("def", J::s(tcx.def_path_str(*did))));
                        let names = tcx.closure_saved_names_of_captured_variables(*did);
                        o.push(("fields", J::Arr(names.iter().map(|n| J::s(n.to_string())).collect())));
                    }
                    AggregateKind::Coroutine(did, _) | AggregateKind::CoroutineClosure(did, _) => {
                        o.push(("ak", J::s("coroutine")));
                        o.push(("def", J::s(tcx.def_path_str(*did))));
                    }
                    AggregateKind::RawPtr(..) => o.push(("ak", J::s("rawptr"))),
                }
                o.push(("ops", J::Arr(ops.iter().map(|x| self.operand(x)).collect())));
                J::Obj(o)
            }
            other => J::Obj(vec![("k", J::s("other")), ("dbg", J::s(format!("{:?}", other)))]),
        }
    }

    fn callee(&self, func: &Operand<'tcx>) -> J {
        let tcx = self.tcx;
        let fty = func.ty(&self.body.local_decls, tcx);
        let mut o: Vec<(&'static str, J)> = Vec::new();
        match fty.kind() {
            ty::FnDef(did, args) => {
                let generic_path = tcx.def_path_str(*did);
                o.push(("generic", J::s(generic_path.clone())));
                o.push(("generic_full", J::s(tcx.def_path_str_with_args(*did, args))));
                o.push(("targs", J::Arr(args.types().map(|a| J::s(ty_s(a))).collect())));
                // trait method?
                if let Some(tr) = tcx.trait_of_assoc(*did) {
                    o.push(("trait", J::s(tcx.def_path_str(tr))));
                    if let Some(self_ty) = args.types().next() {
                        o.push(("self_ty", J::s(ty_s(self_ty))));
                        let mut cur = self_ty;
                        while let ty::Ref(_, inner, _) = cur.kind() {
                            cur = *inner;
                        }
                        if let ty::Adt(def, _) = cur.kind() {
                            o.push(("self_head", J::s(tcx.def_path_str(def.did()))));
                        } else if let ty::Param(p) = cur.kind() {
                            o.push(("self_head", J::s(format!("param:{}", p.name))));
                        } else if let ty::Dynamic(..) = cur.kind() {
                            o.push(("self_head", J::s("dyn")));
                        } else if let ty::Closure(cd, _) = cur.kind() {
                            o.push(("self_head", J::s("closure")));
                            o.push(("self_closure", J::s(tcx.def_path_str(*cd))));
                        }
                    }
                } else if let Some(imp) = tcx.inherent_impl_of_assoc(*did) {
                    let st = tcx.type_of(imp).instantiate_identity().skip_norm_wip();
                    if let ty::Adt(def, _) = st.kind() {
                        o.push(("self_head", J::s(tcx.def_path_str(def.did()))));
                    }
                }
                let mut resolved = generic_path.clone();
                let mut rkind = "direct";
                let mut rdid = *did;
                if let Ok(Some(inst)) = Instance::try_resolve(tcx, self.tenv, *did, args) {
                    rdid = inst.def_id();
                    resolved = tcx.def_path_str(rdid);
                    rkind = match inst.def {
                        ty::InstanceKind::Item(_) => "item",
                        ty::InstanceKind::Virtual(..) => "virtual",
                        ty::InstanceKind::Intrinsic(_) => "intrinsic",
                        ty::InstanceKind::ClosureOnceShim { .. } => "closure_once_shim",
                        ty::InstanceKind::FnPtrShim(..) => "fnptr_shim",
                        ty::InstanceKind::DropGlue(..) => "drop_glue",
                        ty::InstanceKind::CloneShim(..) => "clone_shim",
                        ty::InstanceKind::ReifyShim(..) => "reify_shim",
                        _ => "shim",
                    };
                    if let ty::InstanceKind::ClosureOnceShim { call_once: _, .. } = inst.def {
                        // closure body is the first type arg
                    }
                } else if tcx.trait_of_assoc(*did).is_some() {
                    rkind = "unresolved";
                }
                o.push(("path", J::s(resolved)));
                o.push(("rk", J::s(rkind)));
                o.push(("local", J::Bool(rdid.is_local())));
                // closure call through Fn* traits: record the closure def
                if let Some(self_ty) = args.types().next() {
                    let mut cur = self_ty;
                    while let ty::Ref(_, inner, _) = cur.kind() {
                        cur = *inner;
                    }
                    if let ty::Closure(cd, _) = cur.kind() {
                        o.push(("calls_closure", J::s(tcx.def_path_str(*cd))));
                    }
                }
            }
            ty::FnPtr(..) => {
                o.push(("path", J::s("<fnptr>")));
                o.push(("rk", J::s("fnptr")));
                o.push(("local", J::Bool(false)));
            }
            _ => {
                o.push(("path", J::s(format!("<{}>", ty_s(fty)))));
                o.push(("rk", J::s("other")));
                o.push(("local", J::Bool(false)));
            }
        }
        J::Obj(o)
    }

    fn unwind(&self, u: &UnwindAction) -> J {
        match u {
            UnwindAction::Cleanup(bb) => J::Int(bb.as_usize() as i128),
            _ => J::Null,
        }
    }

    fn terminator(&self, t: &mir::Terminator<'tcx>) -> J {
        let tcx = self.tcx;
        let (_, line) = span_loc(tcx, t.source_info.span);
        let mut o: Vec<(&'static str, J)> = Vec::new();
        match &t.kind {
            TerminatorKind::Goto { target } => {
                o.push(("k", J::s("goto")));
                o.push(("t", J::Int(target.as_usize() as i128)));
            }
            TerminatorKind::SwitchInt { discr, targets } => {
                o.push(("k", J::s("switch")));
                o.push(("op", self.operand(discr)));
                o.push((
                    "targets",
                    J::Arr(
                        targets
                            .iter()
                            .map(|(v, bb)| {
                                J::Arr(vec![
                                    if v <= i128::MAX as u128 { J::Int(v as i128) } else { J::s(v.to_string()) },
                                    J::Int(bb.as_usize() as i128),
                                ])
                            })
                            .collect(),
                    ),
                ));
                o.push(("otherwise", J::Int(targets.otherwise().as_usize() as i128)));
            }
            TerminatorKind::UnwindResume => o.push(("k", J::s("resume"))),
            TerminatorKind::UnwindTerminate(_) => o.push(("k", J::s("terminate"))),
            TerminatorKind::Return => o.push(("k", J::s("return"))),
            TerminatorKind::Unreachable => o.push(("k", J::s("unreachable"))),
            TerminatorKind::Drop { place, target, unwind, .. } => {
                o.push(("k", J::s("drop")));
                o.push(("place", self.place(place)));
                let pty = place.ty(&self.body.local_decls, tcx).ty;
                o.push(("tyf", J::Obj(ty_facts(tcx, pty))));
                o.push(("t", J::Int(target.as_usize() as i128)));
                o.push(("unwind", self.unwind(unwind)));
            }
            TerminatorKind::Call { func, args, destination, target, unwind, fn_span, .. } => {
                o.push(("k", J::s("call")));
                o.push(("callee", self.callee(func)));
                if let Operand::Copy(p) | Operand::Move(p) = func {
                    o.push(("func_place", self.place(p)));
                }
                o.push(("args", J::Arr(args.iter().map(|a| self.operand(&a.node)).collect())));
                o.push(("dest", self.place(destination)));
                o.push(("t", match target { Some(b) => J::Int(b.as_usize() as i128), None => J::Null }));
                o.push(("unwind", self.unwind(unwind)));
                o.push(("exp", J::Bool(fn_span.from_expansion())));
                if fn_span.from_expansion() {
                    // name of the outermost macro
                    let ed = fn_span.ctxt().outer_expn_data();
                    o.push(("macro", J::s(format!("{:?}", ed.kind))));
                }
            }
            TerminatorKind::TailCall { func, args, .. } => {
                o.push(("k", J::s("tailcall")));
                o.push(("callee", self.callee(func)));
                o.push(("args", J::Arr(args.iter().map(|a| self.operand(&a.node)).collect())));
            }
            TerminatorKind::Assert { cond, expected, msg, target, unwind } => {
                o.push(("k", J::s("assert")));
                o.push(("cond", self.operand(cond)));
                o.push(("expected", J::Bool(*expected)));
                let (mk, ops): (String, Vec<J>) = match &**msg {
                    AssertKind::BoundsCheck { len, index } => {
                        ("BoundsCheck".into(), vec![self.operand(len), self.operand(index)])
                    }
                    AssertKind::Overflow(op, a, b) => {
                        (format!("Overflow({:?})", op), vec![self.operand(a), self.operand(b)])
                    }
                    AssertKind::OverflowNeg(a) => ("OverflowNeg".into(), vec![self.operand(a)]),
                    AssertKind::DivisionByZero(a) => ("DivisionByZero".into(), vec![self.operand(a)]),
                    AssertKind::RemainderByZero(a) => ("RemainderByZero".into(), vec![self.operand(a)]),
                    AssertKind::MisalignedPointerDereference { .. } => ("MisalignedPointer".into(), vec![]),
                    AssertKind::NullPointerDereference => ("NullPointer".into(), vec![]),
                    AssertKind::InvalidEnumConstruction(_) => ("InvalidEnum".into(), vec![]),
                    _ => ("Other".into(), vec![]),
                };
                o.push(("msg", J::s(mk)));
                o.push(("ops", J::Arr(ops)));
                o.push(("t", J::Int(target.as_usize() as i128)));
                o.push(("unwind", self.unwind(unwind)));
            }
            other => {
                o.push(("k", J::s("other")));
                o.push(("dbg", J::s(format!("{:?}", other))));
            }
        }
        o.push(("line", J::Int(line as i128)));
        J::Obj(o)
    }

    fn dump(&self) -> J {
        let tcx = self.tcx;
        let body = self.body;
        let did = self.def;
        let kind = tcx.def_kind(did);
        let (file, line) = span_loc(tcx, tcx.def_span(did));
        let mut o: Vec<(&'static str, J)> = vec![
            ("def", J::s(dpath(tcx, did))),
            ("kind", J::s(format!("{:?}", kind))),
            ("vis", J::s(vis_s(tcx, did))),
            ("file", J::s(file)),
            ("line", J::Int(line as i128)),
            ("arg_count", J::Int(body.arg_count as i128)),
        ];
        if matches!(kind, DefKind::Closure) {
            o.push(("parent", J::s(dpath(tcx, tcx.parent(did)))));
            // outermost non-closure ancestor
            let mut p = tcx.parent(did);
            while matches!(tcx.def_kind(p), DefKind::Closure) {
                p = tcx.parent(p);
            }
            o.push(("root_parent", J::s(dpath(tcx, p))));
        }
        if matches!(kind, DefKind::AssocFn) {
            let parent = tcx.parent(did);
            if matches!(tcx.def_kind(parent), DefKind::Impl { .. }) {
                let st = tcx.type_of(parent).instantiate_identity().skip_norm_wip();
                let mut imp: Vec<(&'static str, J)> = vec![("self_ty", J::s(ty_s(st)))];
                if let ty::Adt(def, _) = st.kind() {
                    imp.push(("self_head", J::s(tcx.def_path_str(def.did()))));
                }
                if let Some(tr) = tcx.impl_opt_trait_ref(parent) {
                    let tr = tr.instantiate_identity().skip_norm_wip();
                    imp.push(("trait", J::s(tcx.def_path_str(tr.def_id))));
                    imp.push(("trait_full", J::s(format!("{:?}", tr))));
                }
                o.push(("impl", J::Obj(imp)));
            } else if matches!(tcx.def_kind(parent), DefKind::Trait) {
                o.push(("in_trait", J::s(tcx.def_path_str(parent))));
            }
        }
        if matches!(kind, DefKind::Fn | DefKind::AssocFn) {
            let reach = did
                .as_local()
                .map(|l| tcx.effective_visibilities(()).is_reachable(l))
                .unwrap_or(false);
            o.push(("api", J::Bool(reach)));
        }
        // locals
        let mut names: Vec<Option<String>> = vec![None; body.local_decls.len()];
        for vdi in &body.var_debug_info {
            if let mir::VarDebugInfoContents::Place(p) = &vdi.value {
                if p.projection.is_empty() {
                    names[p.local.as_usize()] = Some(vdi.name.to_string());
                }
            }
        }
        let locals: Vec<J> = body
            .local_decls
            .iter_enumerated()
            .map(|(l, d)| {
                let mut f = ty_facts(tcx, d.ty);
                if let Some(n) = &names[l.as_usize()] {
                    f.push(("name", J::s(n.clone())));
                }
                let _ = d;
                J::Obj(f)
            })
            .collect();
        o.push(("locals", J::Arr(locals)));
        // upvar debug names (closures): name -> field index
        // blocks
        let mut blocks = Vec::new();
        for (_bb, data) in body.basic_blocks.iter_enumerated() {
            let mut stmts = Vec::new();
            for st in &data.statements {
                match &st.kind {
                    StatementKind::Assign(b) => {
                        let (p, rv) = &**b;
                        let (_, line) = span_loc(tcx, st.source_info.span);
                        stmts.push(J::Obj(vec![
                            ("k", J::s("assign")),
                            ("lhs", self.place(p)),
                            ("rv", self.rvalue(rv)),
                            ("line", J::Int(line as i128)),
                        ]));
                    }
                    StatementKind::SetDiscriminant { place, variant_index } => {
                        let pty = place.ty(&body.local_decls, tcx).ty;
                        let vname = match pty.kind() {
                            ty::Adt(def, _) => def.variant(*variant_index).name.to_string(),
                            _ => variant_index.as_usize().to_string(),
                        };
                        stmts.push(J::Obj(vec![
                            ("k", J::s("setdiscr")),
                            ("lhs", self.place(place)),
                            ("variant", J::s(vname)),
                        ]));
                    }
                    _ => {}
                }
            }
            let term = match &data.terminator {
                Some(t) => self.terminator(t),
                None => J::Null,
            };
            blocks.push(J::Obj(vec![
                ("cleanup", J::Bool(data.is_cleanup)),
                ("stmts", J::Arr(stmts)),
                ("term", term),
            ]));
        }
        o.push(("blocks", J::Arr(blocks)));
        J::Obj(o)
    }
}

fn dump_adts<'tcx>(tcx: TyCtxt<'tcx>) -> J {
    let mut out = Vec::new();
    for id in tcx.hir_crate_items(()).definitions() {
        let did = id.to_def_id();
        let kind = tcx.def_kind(did);
        if !matches!(kind, DefKind::Struct | DefKind::Enum | DefKind::Union) {
            continue;
        }
        let def = tcx.adt_def(did);
        let (file, line) = span_loc(tcx, tcx.def_span(did));
        let ident_args = ty::GenericArgs::identity_for_item(tcx, did);
        let self_ty = tcx.type_of(did).instantiate_identity().skip_norm_wip();
        let tenv = TypingEnv::post_analysis(tcx, did);
        let mut variants = Vec::new();
        for v in def.variants() {
            let fields: Vec<J> = v
                .fields
                .iter()
                .map(|f| {
                    let fty = f.ty(tcx, ident_args);
                    let mut fo = ty_facts(tcx, fty);
                    fo.push(("name", J::s(f.name.to_string())));
                    fo.push(("vis", J::s(vis_s(tcx, f.did))));
                    fo.push(("freeze", J::Bool(fty.is_freeze(tcx, tenv))));
                    J::Obj(fo)
                })
                .collect();
            variants.push(J::Obj(vec![("name", J::s(v.name.to_string())), ("fields", J::Arr(fields))]));
        }
        let dtor = tcx.adt_destructor(did).map(|d| tcx.def_path_str(d.did));
        out.push(J::Obj(vec![
            ("path", J::s(dpath(tcx, did))),
            ("kind", J::s(format!("{:?}", kind))),
            ("vis", J::s(vis_s(tcx, did))),
            ("file", J::s(file)),
            ("line", J::Int(line as i128)),
            ("variants", J::Arr(variants)),
            ("drop", J::opt_s(dtor)),
            ("freeze", J::Bool(self_ty.is_freeze(tcx, tenv))),
            ("api", J::Bool(tcx.effective_visibilities(()).is_reachable(id))),
        ]));
    }
    J::Arr(out)
}

fn dump_fns<'tcx>(tcx: TyCtxt<'tcx>) -> J {
    // signatures of all fns/assoc fns (for "no guard type in a public signature" etc.)
    let mut out = Vec::new();
    for id in tcx.hir_crate_items(()).definitions() {
        let did = id.to_def_id();
        let kind = tcx.def_kind(did);
        if !matches!(kind, DefKind::Fn | DefKind::AssocFn) {
            continue;
        }
        let sig = tcx.fn_sig(did).instantiate_identity().skip_norm_wip().skip_binder();
        let ret = sig.output();
        let (file, line) = span_loc(tcx, tcx.def_span(did));
        let mut o: Vec<(&'static str, J)> = vec![
            ("def", J::s(dpath(tcx, did))),
            ("vis", J::s(vis_s(tcx, did))),
            ("api", J::Bool(tcx.effective_visibilities(()).is_reachable(id))),
            ("file", J::s(file)),
            ("line", J::Int(line as i128)),
            ("ret", J::Obj(ty_facts(tcx, ret))),
            ("inputs", J::Arr(sig.inputs().iter().map(|t| J::Obj(ty_facts(tcx, *t))).collect())),
            ("unsafe", J::Bool(sig.safety().is_unsafe())),
            ("has_body", J::Bool(tcx.is_mir_available(did))),
        ];
        let parent = tcx.parent(did);
        if matches!(tcx.def_kind(parent), DefKind::Impl { .. }) {
            let st = tcx.type_of(parent).instantiate_identity().skip_norm_wip();
            o.push(("impl_self", J::s(ty_s(st))));
            if let ty::Adt(def, _) = st.kind() {
                o.push(("impl_self_head", J::s(tcx.def_path_str(def.did()))));
            }
            if let Some(tr) = tcx.impl_opt_trait_ref(parent) {
                let tr = tr.instantiate_identity().skip_norm_wip();
                o.push(("impl_trait", J::s(tcx.def_path_str(tr.def_id))));
            }
        } else if matches!(tcx.def_kind(parent), DefKind::Trait) {
            o.push(("in_trait", J::s(tcx.def_path_str(parent))));
        }
        out.push(J::Obj(o));
    }
    J::Arr(out)
}

fn dump_impls<'tcx>(tcx: TyCtxt<'tcx>) -> J {
    // headers of all trait impls: self type, trait, and the where-clauses / bounds in force (as printed predicates). Needed for
    // marker traits (FusedIterator, ExactSizeIterator, ..) whose impls have no method bodies at all.
    let mut out = Vec::new();
    for id in tcx.hir_crate_items(()).definitions() {
        let did = id.to_def_id();
        if !matches!(tcx.def_kind(did), DefKind::Impl { .. }) {
            continue;
        }
        let Some(tr) = tcx.impl_opt_trait_ref(did) else { continue };
        let tr = tr.instantiate_identity().skip_norm_wip();
        let st = tcx.type_of(did).instantiate_identity().skip_norm_wip();
        let (file, line) = span_loc(tcx, tcx.def_span(did));
        let preds: Vec<J> = tcx
            .predicates_of(did)
            .instantiate_identity(tcx)
            .predicates
            .iter()
            .map(|p| J::s(format!("{:?}", p.skip_norm_wip().kind().skip_binder())))
            .collect();
        let mut o: Vec<(&'static str, J)> = vec![
            ("self_ty", J::s(ty_s(st))),
            ("trait", J::s(tcx.def_path_str(tr.def_id))),
            ("trait_full", J::s(format!("{:?}", tr))),
            ("file", J::s(file)),
            ("line", J::Int(line as i128)),
            ("preds", J::Arr(preds)),
            ("n_items", J::Int(tcx.associated_item_def_ids(did).len() as i128)),
        ];
        if let ty::Adt(def, _) = st.kind() {
            o.push(("self_head", J::s(tcx.def_path_str(def.did()))));
        }
        out.push(J::Obj(o));
    }
    J::Arr(out)
}

fn dump_unsafe<'tcx>(tcx: TyCtxt<'tcx>) -> J {
    // unsafe blocks in HIR, outside macro expansions
    use rustc_hir::intravisit::{self, Visitor};
    struct V<'tcx> {
        tcx: TyCtxt<'tcx>,
        found: Vec<J>,
    }
    impl<'tcx> Visitor<'tcx> for V<'tcx> {
        type NestedFilter = rustc_middle::hir::nested_filter::All;
        fn maybe_tcx(&mut self) -> Self::MaybeTyCtxt {
            self.tcx
        }
        fn visit_block(&mut self, b: &'tcx rustc_hir::Block<'tcx>) {
            if let rustc_hir::BlockCheckMode::UnsafeBlock(src) = b.rules {
                if matches!(src, rustc_hir::UnsafeSource::UserProvided) && !b.span.from_expansion() {
                    let (file, line) = span_loc(self.tcx, b.span);
                    self.found.push(J::Obj(vec![("file", J::s(file)), ("line", J::Int(line as i128))]));
                }
            }
            intravisit::walk_block(self, b);
        }
    }
    let mut v = V { tcx, found: Vec::new() };
    tcx.hir_walk_toplevel_module(&mut v);
    J::Arr(v.found)
}

fn dump_crate<'tcx>(tcx: TyCtxt<'tcx>) -> J {
    let mut bodies = Vec::new();
    let mut keys: Vec<_> = tcx.mir_keys(()).iter().copied().collect();
    keys.sort_by_key(|k| tcx.def_path_str(k.to_def_id()));
    for ldid in keys {
        let did = ldid.to_def_id();
        let kind = tcx.def_kind(did);
        if !matches!(kind, DefKind::Fn | DefKind::AssocFn | DefKind::Closure) {
            continue;
        }
        if !tcx.is_mir_available(did) {
            continue;
        }
        let body = tcx.optimized_mir(did);
        let cx = BodyCx { tcx, body, def: did, tenv: TypingEnv::post_analysis(tcx, did) };
        bodies.push(cx.dump());
    }
    let feats: Vec<J> = tcx
        .sess
        .opts
        .cg
        .overflow_checks
        .iter()
        .map(|b| J::Bool(*b))
        .collect();
    J::Obj(vec![
        ("crate", J::s(tcx.crate_name(LOCAL_CRATE).to_string())),
        ("overflow_checks", J::Arr(feats)),
        ("cfg", J::Arr(
            {
                let mut v: Vec<String> = tcx.sess.config.iter().filter_map(|(k, v)| {
                    if k.as_str() == "feature" { v.map(|v| v.to_string()) } else { None }
                }).collect();
                v.sort();
                v.into_iter().map(J::s).collect()
            }
        )),
        ("bodies", J::Arr(bodies)),
        ("adts", dump_adts(tcx)),
        ("fns", dump_fns(tcx)),
        ("impls", dump_impls(tcx)),
        ("unsafe_blocks", dump_unsafe(tcx)),
    ])
}

#[allow(dead_code)]
fn _unused<'tcx>(_: GenericArgsRef<'tcx>, _: BasicBlock) {}
