use indicatif::{InMemoryTerm, MultiProgress, ProgressBar, ProgressDrawTarget, ProgressStyle};
fn style() -> ProgressStyle { ProgressStyle::with_template("{msg}").unwrap() }
#[test]
fn truncated_frame_then_zombies() {
    let term = InMemoryTerm::new(2, 20);
    let mp = MultiProgress::with_draw_target(ProgressDrawTarget::term_like(Box::new(term.clone())));
    let a = mp.add(ProgressBar::new(10).with_style(style()).with_message("a1\na2"));
    let b = mp.add(ProgressBar::new(10).with_style(style()).with_message("b"));
    a.tick();
    b.tick();
    println!("1 {:?}", term.contents());
    a.finish();
    println!("2 {:?}", term.contents());
    drop(a);
    b.tick();
    println!("3 {:?}", term.contents());
    b.set_message("bb");
    println!("4 {:?}", term.contents());
    assert!(!term.contents().contains("a2b"), "the next frame was glued to the last kept row: {:?}", term.contents());
}
