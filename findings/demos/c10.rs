use indicatif::ProgressStyle;

// F2: a width that does not fit u16 must yield Err (or Ok), never a panic.
#[test]
fn oversized_width_does_not_panic() {
    let r = std::panic::catch_unwind(|| ProgressStyle::with_template("{msg:70000}").is_ok());
    assert!(r.is_ok(), "with_template panicked on a width beyond u16::MAX");
    let r = std::panic::catch_unwind(|| ProgressStyle::default_bar().template("{bar:99999999999999999999.green}").is_ok());
    assert!(r.is_ok(), "template panicked");
    assert!(ProgressStyle::with_template("{msg:65535}").is_ok());
    assert!(ProgressStyle::with_template("{msg:65536}").is_err());
}
