use indicatif::{InMemoryTerm, MultiProgress, ProgressBar, ProgressDrawTarget, ProgressStyle, TermLike};
fn style() -> ProgressStyle { ProgressStyle::with_template("{msg}").unwrap() }
// (i) MultiProgress::set_draw_target keeps zombie_lines_count across targets
#[test]
fn zombie_count_across_targets() {
    let t1 = InMemoryTerm::new(10, 20);
    let t2 = InMemoryTerm::new(10, 20);
    let mp = MultiProgress::with_draw_target(ProgressDrawTarget::term_like(Box::new(t1.clone())));
    let a = mp.add(ProgressBar::new(10).with_style(style()).with_message("A"));
    let b = mp.add(ProgressBar::new(10).with_style(style()).with_message("B"));
    a.tick(); b.tick();
    a.finish(); drop(a);           // A kept as zombie row on t1
    t2.write_line("user line 1").unwrap();
    t2.write_line("user line 2").unwrap();
    mp.set_draw_target(ProgressDrawTarget::term_like(Box::new(t2.clone())));
    b.tick();
    println!("t2 after tick: {:?}", t2.contents());
    mp.println("log").unwrap();
    println!("t2 after println: {:?}", t2.contents());
    assert!(t2.contents().contains("user line 2"), "a row of the new terminal that never belonged to the region was erased: {:?}", t2.contents());
}
// (ii) set_move_cursor(true): the first frame's "\r" when bar_count == 0
#[test]
fn move_cursor_first_frame() {
    let t = InMemoryTerm::new(10, 20);
    let mp = MultiProgress::with_draw_target(ProgressDrawTarget::term_like(Box::new(t.clone())));
    mp.set_move_cursor(true);
    let a = mp.add(ProgressBar::new(10).with_style(style()).with_message("A"));
    mp.println("hello").unwrap();
    println!("after println: {:?}", t.contents());
    a.tick();
    println!("after tick: {:?}", t.contents());
    assert!(t.contents().contains("hello"), "{:?}", t.contents());
}
