use indicatif::{InMemoryTerm, ProgressBar, ProgressDrawTarget, ProgressStyle};

fn render(t: &str, msg: &str, prefix: &str) -> String {
    let term = InMemoryTerm::new(10, 30);
    let pb = ProgressBar::with_draw_target(Some(3), ProgressDrawTarget::term_like(Box::new(term.clone())));
    pb.set_style(ProgressStyle::with_template(t).unwrap());
    pb.set_message(msg.to_string());
    pb.set_prefix(prefix.to_string());
    pb.tick();
    term.contents()
}

/// A NUL in the message, the prefix or the template text was taken for the marker of the wide
/// element: the bar was spliced into the text and the line overflowed the terminal.
#[test]
fn nul_in_text_is_not_the_wide_marker() {
    let reference = render("{msg}[{wide_bar}]", "ab", "");
    assert_eq!(reference.lines().count(), 1);
    assert_eq!(render("{msg}[{wide_bar}]", "a\u{0}b", ""), reference);
    assert_eq!(render("{prefix}[{wide_bar}]", "", "a\u{0}b"), render("{prefix}[{wide_bar}]", "", "ab"));
    assert_eq!(render("a\u{0}b[{wide_bar}]", "", ""), render("ab[{wide_bar}]", "", ""));
    assert_eq!(render("{prefix}|{wide_msg}", "hello", "a\u{0}b"), "ab|hello");
}
