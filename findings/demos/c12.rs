use indicatif::{InMemoryTerm, ProgressBar, ProgressDrawTarget, ProgressStyle};

fn render(tmpl: &str, msg: &'static str) -> String {
    let term = InMemoryTerm::new(5, 60);
    let pb = ProgressBar::with_draw_target(Some(10), ProgressDrawTarget::term_like(Box::new(term.clone())));
    pb.set_style(ProgressStyle::with_template(tmpl).unwrap());
    pb.set_message(msg);
    pb.tick();
    term.contents()
}

// F5 (known finding, not repaired): truncation slices bytes by a column count.
#[test]
fn truncation_keeps_exactly_w_columns_for_non_ascii() {
    // 5 two-byte, one-column characters truncated to 3 columns
    let out = render("[{msg:3!}]", "ééééé");
    assert_eq!(out, "[ééé]", "left-aligned truncation of multi-byte text");
}
