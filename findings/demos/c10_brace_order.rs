// C10 fidelity, finding F16: literal text in front of an opening brace that is followed by whitespace is emitted AFTER
// the brace: "a{ b" renders as "{a b", "x: { y }" as "{x:  y }".
use indicatif::{InMemoryTerm, ProgressBar, ProgressDrawTarget, ProgressStyle};

fn render(t: &str) -> String {
    let term = InMemoryTerm::new(5, 60);
    let pb = ProgressBar::with_draw_target(Some(10), ProgressDrawTarget::term_like(Box::new(term.clone())));
    pb.set_style(ProgressStyle::with_template(t).unwrap());
    pb.tick();
    let s = term.contents();
    std::mem::forget(pb);
    s
}

#[test]
fn text_before_brace_whitespace_stays_in_front() {
    assert_eq!(render("a{ b"), "a{ b");
    assert_eq!(render("x: { y }"), "x: { y }");
    assert_eq!(render("{pos} of { {len} }"), "0 of { 10 }");
}

#[test]
fn brace_first_is_unaffected() {
    assert_eq!(render("{ \"k\": {pos} }"), "{ \"k\": 0 }");
}
