use indicatif::{InMemoryTerm, MultiProgress, ProgressBar, ProgressDrawTarget, ProgressStyle};

#[test]
fn printed_line_survives_clear_then_drop_of_finished_head() {
    let term = InMemoryTerm::new(10, 40);
    let mp = MultiProgress::with_draw_target(ProgressDrawTarget::term_like(Box::new(term.clone())));
    let style = ProgressStyle::with_template("{msg}").unwrap();
    let pb1 = mp.add(ProgressBar::new(10).with_style(style.clone()).with_message("pb1"));
    let pb2 = mp.add(ProgressBar::new(10).with_style(style).with_message("pb2"));
    pb1.tick();
    pb2.tick();
    mp.println("log 1").unwrap();
    assert_eq!(term.contents(), "log 1\npb1\npb2");
    pb1.finish();
    mp.clear().unwrap();
    assert_eq!(term.contents(), "log 1");
    drop(pb1);
    pb2.tick();
    println!("after tick: {:?}", term.contents());
    mp.println("log 2").unwrap();
    println!("after println: {:?}", term.contents());
    let c = term.contents();
    assert!(c.contains("log 1"), "log 1 was erased: {c:?}");
    assert!(c.contains("log 2"), "log 2 missing: {c:?}");
}
