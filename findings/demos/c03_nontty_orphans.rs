#![cfg(unix)]
use std::fs::{File, OpenOptions};

use console::Term;
use indicatif::{InMemoryTerm, MultiProgress, ProgressBar, ProgressDrawTarget, ProgressStyle};

fn file_backed_term() -> Term {
    let mut path = std::env::temp_dir();
    path.push(format!("c03_nontty_{}.out", std::process::id()));
    let write = OpenOptions::new().create(true).truncate(true).write(true).open(&path).unwrap();
    let read = File::open(&path).unwrap();
    Term::read_write_pair(read, write)
}

/// Text printed through a member while its MultiProgress cannot show anything (a non-tty `Term`) must not
/// surface later, below newer lines, once a visible target is installed.
#[test]
fn text_printed_while_not_a_tty_is_dropped() {
    let term = file_backed_term();
    assert!(!term.is_term());
    let mp = MultiProgress::with_draw_target(ProgressDrawTarget::term(term, 20));
    assert!(mp.is_hidden());
    let pb = mp.add(ProgressBar::new(3).with_style(ProgressStyle::with_template("{msg}").unwrap()));
    pb.set_message("bar");
    pb.println("old line, printed while hidden");

    let t = InMemoryTerm::new(10, 40);
    mp.set_draw_target(ProgressDrawTarget::term_like(Box::new(t.clone())));
    mp.println("new").unwrap();
    pb.tick();
    assert_eq!(t.contents(), "new\nbar");
}
