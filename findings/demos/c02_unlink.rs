use indicatif::{InMemoryTerm, MultiProgress, ProgressBar, ProgressDrawTarget, ProgressStyle};

fn bar(msg: &str) -> ProgressBar {
    let pb = ProgressBar::new(3).with_style(ProgressStyle::with_template("{msg}").unwrap());
    pb.set_message(msg.to_string());
    pb
}

#[test]
fn unlinked_member_leaves_no_slot() {
    let t = InMemoryTerm::new(10, 20);
    let mp = MultiProgress::with_draw_target(ProgressDrawTarget::term_like(Box::new(t.clone())));
    let a = mp.add(bar("a"));
    let b = mp.add(bar("b"));
    a.tick(); b.tick();
    assert_eq!(t.contents(), "a\nb");
    // documented: "will unlink this progress bar"
    a.set_draw_target(ProgressDrawTarget::hidden());
    assert_eq!(t.contents(), "b");
    // b is now the only member (index 0): index 1 is below it
    let c = mp.insert(1, bar("c"));
    c.tick();
    assert_eq!(t.contents(), "b\nc");
}

#[test]
fn removed_member_same_history() {
    let t = InMemoryTerm::new(10, 20);
    let mp = MultiProgress::with_draw_target(ProgressDrawTarget::term_like(Box::new(t.clone())));
    let a = mp.add(bar("a"));
    let b = mp.add(bar("b"));
    a.tick(); b.tick();
    mp.remove(&a);
    let c = mp.insert(1, bar("c"));
    c.tick();
    assert_eq!(t.contents(), "b\nc");
}

