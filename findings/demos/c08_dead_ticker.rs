// C05/C08: after finish() the steady-tick thread exits but its Ticker stays in the slot. After reset() the bar is live again,
// manual ticks are still suppressed ("a ticker is installed") and nothing ticks: the bar never redraws.
use indicatif::{ProgressBar, ProgressDrawTarget, ProgressStyle, TermLike};
use std::io;
use std::sync::atomic::{AtomicUsize, Ordering};
use std::sync::Arc;
use std::time::Duration;

#[derive(Debug, Clone)]
struct Count(Arc<AtomicUsize>);
impl TermLike for Count {
    fn width(&self) -> u16 { 40 }
    fn height(&self) -> u16 { 10 }
    fn move_cursor_up(&self, _: usize) -> io::Result<()> { Ok(()) }
    fn move_cursor_down(&self, _: usize) -> io::Result<()> { Ok(()) }
    fn move_cursor_right(&self, _: usize) -> io::Result<()> { Ok(()) }
    fn move_cursor_left(&self, _: usize) -> io::Result<()> { Ok(()) }
    fn write_line(&self, _: &str) -> io::Result<()> { Ok(()) }
    fn write_str(&self, _: &str) -> io::Result<()> { Ok(()) }
    fn clear_line(&self) -> io::Result<()> { Ok(()) }
    fn flush(&self) -> io::Result<()> { self.0.fetch_add(1, Ordering::SeqCst); Ok(()) }
}

#[test]
fn reset_bar_with_exited_ticker_still_redraws() {
    let frames = Arc::new(AtomicUsize::new(0));
    let pb = ProgressBar::with_draw_target(Some(100), ProgressDrawTarget::term_like(Box::new(Count(frames.clone()))));
    pb.set_style(ProgressStyle::with_template("{pos}").unwrap());
    pb.enable_steady_tick(Duration::from_millis(10));
    pb.finish();
    std::thread::sleep(Duration::from_millis(60)); // the ticker thread notices the finished bar and exits
    pb.reset();
    let before = frames.load(Ordering::SeqCst);
    for _ in 0..50 {
        pb.inc(1);
        std::thread::sleep(Duration::from_millis(5));
    }
    let painted = frames.load(Ordering::SeqCst) - before;
    assert!(painted > 0, "50 increments over 250 ms painted no frame at all");
}
