// C17 finding F19: the producer (indexed) path of the rayon adaptor handed every part of a split a sequential
// ProgressBarIter; the first part to run out of items finished the shared bar (position := length) while the other parts
// were still counting. rev(), zip(), chunks(), with_min_len() ... ended near 2 x len.
use indicatif::{ParallelProgressIterator, ProgressBar, ProgressDrawTarget};
use rayon::prelude::*;

fn mk(n: u64) -> ProgressBar {
    ProgressBar::with_draw_target(Some(n), ProgressDrawTarget::hidden())
}

#[test]
fn producer_path_counts_exactly() {
    let n = 100_000u64;
    let v: Vec<u64> = (0..n).collect();
    for round in 0..5 {
        let pb = mk(n);
        let s: u64 = v.par_iter().progress_with(pb.clone()).rev().map(|x| *x).sum();
        assert_eq!(s, n * (n - 1) / 2);
        assert_eq!(pb.position(), n, "rev, round {round}");
        let pb = mk(n);
        let c: usize = v.par_iter().progress_with(pb.clone()).chunks(7).map(|c| c.len()).sum();
        assert_eq!(c as u64, n);
        assert_eq!(pb.position(), n, "chunks, round {round}");
        let pb = mk(n);
        let c = v.par_iter().progress_with(pb.clone()).zip(v.par_iter()).count();
        assert_eq!(c as u64, n);
        assert_eq!(pb.position(), n, "zip, round {round}");
    }
}
