use indicatif::{InMemoryTerm, MultiProgress, ProgressBar, ProgressDrawTarget, ProgressFinish, ProgressStyle};

fn style() -> ProgressStyle {
    ProgressStyle::with_template("{prefix} {pos}/{len}").unwrap()
}

// F8: two visibly finished bars dropped in reverse order, then println: the log line directly
// above the bars is erased.
#[test]
fn println_after_reaping_keeps_earlier_log_lines() {
    let term = InMemoryTerm::new(20, 40);
    let mp = MultiProgress::with_draw_target(ProgressDrawTarget::term_like(Box::new(term.clone())));
    mp.println("log A").unwrap();
    mp.println("log B").unwrap();
    let b0 = mp.add(ProgressBar::new(5).with_style(style()).with_prefix("b0").with_finish(ProgressFinish::AndLeave));
    let b1 = mp.add(ProgressBar::new(5).with_style(style()).with_prefix("b1").with_finish(ProgressFinish::AndLeave));
    let b2 = mp.add(ProgressBar::new(5).with_style(style()).with_prefix("b2"));
    b0.tick(); b1.tick(); b2.tick();
    b1.finish();
    drop(b1); // not first: zombie
    b0.finish();
    drop(b0); // first: reaped now; b1 stays a zombie at the head
    mp.println("log C").unwrap();
    b2.tick();
    let out = term.contents();
    println!("{out}");
    assert!(out.contains("log A"), "log A erased:\n{out}");
    assert!(out.contains("log B"), "log B erased:\n{out}");
    assert!(out.contains("log C"), "log C missing:\n{out}");
}

// F7: rate limited ticks while a zombie waits at the head: its rows are counted again on every
// skipped draw, and the next println erases that many rows above the frame.
#[test]
fn rate_limited_ticks_do_not_inflate_zombie_rows() {
    let term = InMemoryTerm::new(30, 40);
    let mp = MultiProgress::with_draw_target(ProgressDrawTarget::term_like_with_hz(Box::new(term.clone()), 1));
    for i in 0..4 {
        mp.println(format!("log {i}")).unwrap();
    }
    let b0 = mp.add(ProgressBar::new(5).with_style(style()).with_prefix("b0").with_finish(ProgressFinish::AndLeave));
    let b1 = mp.add(ProgressBar::new(5).with_style(style()).with_prefix("b1").with_finish(ProgressFinish::AndLeave));
    let b2 = mp.add(ProgressBar::new(5).with_style(style()).with_prefix("b2"));
    // exhaust the limiter (burst 20)
    for _ in 0..30 { b2.tick(); }
    b0.tick(); b1.tick();
    b1.finish(); drop(b1);     // zombie, not first
    b0.finish(); drop(b0);     // first: reaped immediately; b1 is now the head zombie
    for _ in 0..5 { b2.tick(); } // all rate limited
    b2.finish_and_clear();       // forced draw reaps b1
    mp.println("last").unwrap();
    let out = term.contents();
    println!("{out}");
    for i in 0..4 {
        assert!(out.contains(&format!("log {i}")), "log {i} erased:\n{out}");
    }
    assert!(out.contains("last"));
}
