// C14 / C19 finding F15: a terminal that reports width 0 makes the draw panic.
//   LineType::wrapped_height(0) = ceil(columns / 0.0) as usize = usize::MAX for a non-empty line (1 for an empty one),
//   so `real_height + line_height` overflows for a second bar line, and the end-of-frame filler
//   `line_height * 0 - columns` underflows for any non-empty last line.
use indicatif::{ProgressBar, ProgressDrawTarget, ProgressStyle, TermLike};
use std::io;

#[derive(Debug)]
struct Zero;
impl TermLike for Zero {
    fn width(&self) -> u16 { 0 }
    fn height(&self) -> u16 { 24 }
    fn move_cursor_up(&self, _: usize) -> io::Result<()> { Ok(()) }
    fn move_cursor_down(&self, _: usize) -> io::Result<()> { Ok(()) }
    fn move_cursor_right(&self, _: usize) -> io::Result<()> { Ok(()) }
    fn move_cursor_left(&self, _: usize) -> io::Result<()> { Ok(()) }
    fn write_line(&self, _: &str) -> io::Result<()> { Ok(()) }
    fn write_str(&self, _: &str) -> io::Result<()> { Ok(()) }
    fn clear_line(&self) -> io::Result<()> { Ok(()) }
    fn flush(&self) -> io::Result<()> { Ok(()) }
}

fn quiet<F: FnOnce() + std::panic::UnwindSafe>(f: F) -> bool {
    std::panic::catch_unwind(f).is_ok()
}

#[test]
fn two_line_template_at_width_zero() {
    let ok = quiet(|| {
        let pb = ProgressBar::with_draw_target(Some(10), ProgressDrawTarget::term_like(Box::new(Zero)));
        pb.set_style(ProgressStyle::with_template("{wide_bar}\n{pos}/{len}").unwrap());
        pb.inc(1);
        pb.tick();
        std::mem::forget(pb);
    });
    assert!(ok, "drawing a two-line template on a zero-width terminal panicked");
}

#[test]
fn println_at_width_zero() {
    let ok = quiet(|| {
        let pb = ProgressBar::with_draw_target(Some(10), ProgressDrawTarget::term_like(Box::new(Zero)));
        pb.set_style(ProgressStyle::with_template("{pos}").unwrap());
        pb.println("hello");
        std::mem::forget(pb);
    });
    assert!(ok, "println on a zero-width terminal panicked");
}

#[test]
fn single_line_at_width_zero() {
    let ok = quiet(|| {
        let pb = ProgressBar::with_draw_target(Some(10), ProgressDrawTarget::term_like(Box::new(Zero)));
        pb.set_style(ProgressStyle::with_template("{pos}/{len}").unwrap());
        pb.inc(1);
        pb.tick();
        std::mem::forget(pb);
    });
    assert!(ok, "drawing a one-line template on a zero-width terminal panicked");
}
