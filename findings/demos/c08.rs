use indicatif::{ProgressBar, ProgressDrawTarget};
use std::sync::atomic::{AtomicBool, AtomicU64, Ordering};
use std::sync::Arc;
use std::time::{Duration, Instant};

// F1: update() takes the bar state and then the ticker slot; disable/enable_steady_tick holds the
// ticker slot while joining the ticker thread, which needs the bar state.
#[test]
fn update_vs_steady_tick_does_not_deadlock() {
    let pb = ProgressBar::with_draw_target(Some(1000), ProgressDrawTarget::hidden());
    let stop = Arc::new(AtomicBool::new(false));
    let progress = Arc::new(AtomicU64::new(0));
    let mut hs = vec![];
    for _ in 0..2 {
        let (pb, stop, progress) = (pb.clone(), stop.clone(), progress.clone());
        hs.push(std::thread::spawn(move || {
            while !stop.load(Ordering::Relaxed) {
                pb.update(|s| s.set_pos(1));
                progress.fetch_add(1, Ordering::Relaxed);
            }
        }));
    }
    {
        let (pb, stop, progress) = (pb.clone(), stop.clone(), progress.clone());
        hs.push(std::thread::spawn(move || {
            while !stop.load(Ordering::Relaxed) {
                pb.enable_steady_tick(Duration::from_micros(50));
                std::thread::yield_now();
                pb.disable_steady_tick();
                progress.fetch_add(1, Ordering::Relaxed);
            }
        }));
    }
    let t0 = Instant::now();
    let mut last = 0;
    let mut stalled = 0;
    while t0.elapsed() < Duration::from_secs(20) {
        std::thread::sleep(Duration::from_millis(200));
        let p = progress.load(Ordering::Relaxed);
        if p == last { stalled += 1 } else { stalled = 0 }
        last = p;
        if stalled >= 10 {
            panic!("no thread made progress for 2 s after {:?}: deadlock (iterations: {})", t0.elapsed(), p);
        }
    }
    stop.store(true, Ordering::Relaxed);
    for h in hs { h.join().unwrap(); }
}
