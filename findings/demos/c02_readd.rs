use indicatif::{InMemoryTerm, MultiProgress, ProgressBar, ProgressDrawTarget, ProgressStyle};

fn bar(msg: &str) -> ProgressBar {
    let pb = ProgressBar::new(3).with_style(ProgressStyle::with_template("{msg}").unwrap());
    pb.set_message(msg.to_string());
    pb
}

#[test]
fn readd_has_no_effect() {
    let t = InMemoryTerm::new(10, 20);
    let mp = MultiProgress::with_draw_target(ProgressDrawTarget::term_like(Box::new(t.clone())));
    let a = mp.add(bar("a"));
    let b = mp.add(bar("b"));
    a.tick(); b.tick();
    assert_eq!(t.contents(), "a\nb");
    let a2 = mp.add(a.clone());
    a2.tick(); b.tick();
    println!("{:?}", t.contents());
    assert_eq!(t.contents(), "a\nb", "documented: adding a member again has no effect");
    let c = mp.insert(1, bar("c"));
    c.tick();
    println!("{:?}", t.contents());
    assert_eq!(t.contents(), "a\nc\nb");
}
