use std::io;
use std::sync::atomic::{AtomicBool, Ordering};
use std::sync::{Arc, Mutex};
use std::thread;

use indicatif::{ProgressBar, ProgressDrawTarget, ProgressStyle, TermLike};

#[derive(Debug, Clone, Default)]
struct Rec(Arc<Mutex<Vec<String>>>);
impl TermLike for Rec {
    fn width(&self) -> u16 { 40 }
    fn move_cursor_up(&self, _: usize) -> io::Result<()> { Ok(()) }
    fn move_cursor_down(&self, _: usize) -> io::Result<()> { Ok(()) }
    fn move_cursor_right(&self, _: usize) -> io::Result<()> { Ok(()) }
    fn move_cursor_left(&self, _: usize) -> io::Result<()> { Ok(()) }
    fn write_line(&self, _: &str) -> io::Result<()> { Ok(()) }
    fn write_str(&self, s: &str) -> io::Result<()> { if s.contains('=') { self.0.lock().unwrap().push(s.to_string()); } Ok(()) }
    fn clear_line(&self) -> io::Result<()> { Ok(()) }
    fn flush(&self) -> io::Result<()> { Ok(()) }
}

/// One frame shows one state of the bar: with a length of 100 the percentage is the position.
#[test]
fn pos_and_percent_of_one_frame_agree() {
    let rec = Rec::default();
    let pb = ProgressBar::with_draw_target(Some(100), ProgressDrawTarget::term_like(Box::new(rec.clone())));
    pb.set_style(ProgressStyle::with_template("{pos}={percent}").unwrap());
    let stop = Arc::new(AtomicBool::new(false));
    let writer = {
        let (pb, stop) = (pb.clone(), stop.clone());
        thread::spawn(move || {
            let mut i = 0u64;
            while !stop.load(Ordering::Relaxed) {
                i = (i + 1) % 101;
                // changes the shared position without taking the bar's lock first
                pb.set_position(i);
            }
        })
    };
    for _ in 0..200_000 {
        pb.force_draw();
    }
    stop.store(true, Ordering::Relaxed);
    writer.join().unwrap();
    let frames = rec.0.lock().unwrap();
    let torn: Vec<&String> = frames.iter().filter(|f| { let (a, b) = f.trim().split_once('=').unwrap(); a != b }).collect();
    assert!(torn.is_empty(), "{} of {} frames show two different positions, e.g. {:?}", torn.len(), frames.len(), &torn[..torn.len().min(3)]);
}
