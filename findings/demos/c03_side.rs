use indicatif::{InMemoryTerm, MultiProgress, MultiProgressAlignment, ProgressBar, ProgressDrawTarget, ProgressStyle};

fn mp_on(term: &InMemoryTerm) -> MultiProgress {
    MultiProgress::with_draw_target(ProgressDrawTarget::term_like(Box::new(term.clone())))
}
fn bar(mp: &MultiProgress, msg: &'static str) -> ProgressBar {
    mp.add(ProgressBar::new(10).with_style(ProgressStyle::with_template("{msg}").unwrap()).with_message(msg))
}

#[test]
fn s1_pb_println_after_zombie_then_mp_println() {
    let term = InMemoryTerm::new(10, 40);
    let mp = mp_on(&term);
    let top = bar(&mp, "top");
    let low = bar(&mp, "low");
    top.tick(); low.tick();
    top.finish();            // visible finish
    drop(top);               // head -> reaped immediately, row kept as zombie
    println!("after drop: {:?}", term.contents());
    low.println("x");
    println!("after pb.println: {:?}", term.contents());
    mp.println("y").unwrap();
    println!("after mp.println: {:?}", term.contents());
    let c = term.contents();
    assert!(c.contains("x"), "x erased: {c:?}");
    assert!(c.contains("y"), "y missing: {c:?}");
}

#[test]
fn s2_bottom_alignment_println_then_draw() {
    let term = InMemoryTerm::new(10, 40);
    let mp = mp_on(&term);
    mp.set_alignment(MultiProgressAlignment::Bottom);
    let a = bar(&mp, "a"); let b = bar(&mp, "b"); let c = bar(&mp, "c");
    a.tick(); b.tick(); c.tick();
    mp.remove(&a); mp.remove(&b);
    c.tick();
    println!("after removes: {:?}", term.contents());
    mp.println("hello").unwrap();
    println!("after println: {:?}", term.contents());
    c.tick();
    println!("after tick: {:?}", term.contents());
    assert!(term.contents().contains("hello"), "hello erased: {:?}", term.contents());
}

#[test]
fn s3_bottom_alignment_suspend() {
    let term = InMemoryTerm::new(10, 40);
    let mp = mp_on(&term);
    mp.set_alignment(MultiProgressAlignment::Bottom);
    let a = bar(&mp, "a"); let b = bar(&mp, "b");
    a.tick(); b.tick();
    mp.remove(&a);
    b.tick();
    let t2 = term.clone();
    mp.suspend(|| { use indicatif::TermLike; t2.write_line("from closure").unwrap(); });
    println!("after suspend: {:?}", term.contents());
    b.tick();
    println!("after tick: {:?}", term.contents());
    assert!(term.contents().contains("from closure"), "closure line erased: {:?}", term.contents());
}
