use std::thread::sleep;
use std::time::Duration;

use indicatif::ProgressBar;

/// After `reset()` the position is 0 again; the estimator has to measure from there, not from the position the bar had before.
#[test]
fn rate_after_reset_counts_from_zero() {
    let pb = ProgressBar::hidden();
    pb.set_length(1_000_000);
    pb.set_position(100_000);
    sleep(Duration::from_millis(20));
    pb.reset();
    sleep(Duration::from_millis(400));
    // 150_000 steps in 0.4 s since the reset: about 375_000 steps/s
    pb.set_position(150_000);
    let rate = pb.per_sec();
    assert!(rate > 250_000.0, "per_sec() = {rate}: the 100_000 steps done before reset() were subtracted from the progress made since");
}

/// ... and a first position below the old one is progress like any other, not a "rewind" that is thrown away.
#[test]
fn first_sample_after_reset_is_not_dropped() {
    let pb = ProgressBar::hidden();
    pb.set_length(1_000_000);
    pb.set_position(100_000);
    pb.reset();
    sleep(Duration::from_millis(300));
    pb.set_position(50_000);
    assert!(pb.per_sec() > 0.0, "the first update after reset() was discarded");
}
