use indicatif::HumanFloatCount;
#[test]
fn precision_zero_rounds_like_the_standard_formatter() {
    for v in [1234.7f64, 0.6, 999.5, 2.5, 1999.99999, 12345678.9] {
        let plain = format!("{:.0}", v);
        let human = format!("{:.0}", HumanFloatCount(v)).replace(',', "");
        assert_eq!(human, plain, "value {v}");
    }
}
