use indicatif::{ProgressBar, ProgressIterator};

#[test]
fn size_hint_is_the_inner_one() {
    let v = vec![1, 2, 3];
    assert_eq!(v.iter().progress_with(ProgressBar::hidden()).size_hint(), v.iter().size_hint());
    let filtered = v.iter().filter(|x| **x > 1);
    let hint = filtered.size_hint();
    assert_eq!(v.iter().filter(|x| **x > 1).progress_with(ProgressBar::hidden()).size_hint(), hint);
}
