use indicatif::ProgressBar;
use std::io::SeekFrom;
use std::pin::Pin;
use std::task::{Context, Poll, RawWaker, RawWakerVTable, Waker};
use tokio::io::{AsyncBufRead, AsyncSeek};

fn noop_waker() -> Waker {
    fn clone(_: *const ()) -> RawWaker { RawWaker::new(std::ptr::null(), &VT) }
    fn noop(_: *const ()) {}
    static VT: RawWakerVTable = RawWakerVTable::new(clone, noop, noop, noop);
    unsafe { Waker::from_raw(RawWaker::new(std::ptr::null(), &VT)) }
}

// F6: counting must follow consume(), not poll_fill_buf().
#[test]
fn async_bufread_counts_consumed_bytes() {
    let data: &[u8] = b"0123456789";
    let pb = ProgressBar::hidden();
    let mut r = pb.wrap_async_read(data);
    let w = noop_waker();
    let mut cx = Context::from_waker(&w);
    for _ in 0..2 {
        match Pin::new(&mut r).poll_fill_buf(&mut cx) {
            Poll::Ready(Ok(buf)) => assert_eq!(buf.len(), 10),
            other => panic!("{other:?}"),
        }
    }
    assert_eq!(pb.position(), 0, "peeking at the buffer must not count");
    Pin::new(&mut r).consume(3);
    assert_eq!(pb.position(), 3, "exactly the consumed bytes count");
}

// F9: a completed seek sets the position to the new offset, like the sync Seek wrapper.
#[test]
fn async_seek_sets_position() {
    let pb = ProgressBar::hidden();
    let mut s = pb.wrap_async_read(std::io::Cursor::new(vec![0u8; 100]));
    let w = noop_waker();
    let mut cx = Context::from_waker(&w);
    Pin::new(&mut s).start_seek(SeekFrom::Start(40)).unwrap();
    match Pin::new(&mut s).poll_complete(&mut cx) {
        Poll::Ready(Ok(40)) => {}
        other => panic!("{other:?}"),
    }
    assert_eq!(pb.position(), 40);
}
