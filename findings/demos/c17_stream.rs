use futures_core::Stream;
use indicatif::{InMemoryTerm, ProgressBar, ProgressDrawTarget, ProgressStyle};
use std::pin::Pin;
use std::task::{Context, Poll, RawWaker, RawWakerVTable, Waker};

struct Empty;
impl Stream for Empty {
    type Item = u8;
    fn poll_next(self: Pin<&mut Self>, _: &mut Context<'_>) -> Poll<Option<u8>> { Poll::Ready(None) }
}
fn noop_waker() -> Waker {
    fn clone(_: *const ()) -> RawWaker { RawWaker::new(std::ptr::null(), &VT) }
    fn noop(_: *const ()) {}
    static VT: RawWakerVTable = RawWakerVTable::new(clone, noop, noop, noop);
    unsafe { Waker::from_raw(RawWaker::new(std::ptr::null(), &VT)) }
}

// F10: polling an exhausted stream again must not re-finish an already finished bar.
#[test]
fn exhausted_stream_does_not_refinish() {
    let term = InMemoryTerm::new(10, 40);
    let pb = ProgressBar::with_draw_target(Some(3), ProgressDrawTarget::term_like(Box::new(term.clone())))
        .with_style(ProgressStyle::with_template("{msg} {pos}/{len}").unwrap());
    let mut s = pb.wrap_stream(Empty);
    pb.finish_with_message("done");
    assert_eq!(term.contents(), "done 3/3");
    let w = noop_waker();
    let mut cx = Context::from_waker(&w);
    assert_eq!(Pin::new(&mut s).poll_next(&mut cx), Poll::Ready(None));
    assert_eq!(term.contents(), "done 3/3", "finished bar was finished again (default AndClear wiped it)");
}
