use indicatif::{InMemoryTerm, MultiProgress, MultiProgressAlignment, ProgressBar, ProgressDrawTarget, ProgressStyle};

fn bar(msg: &str) -> ProgressBar {
    let pb = ProgressBar::new(3).with_style(ProgressStyle::with_template("{msg}").unwrap());
    pb.set_message(msg.to_string());
    pb
}

#[test]
fn bottom_clear_moves_region_down() {
    let t = InMemoryTerm::new(10, 20);
    let mp = MultiProgress::with_draw_target(ProgressDrawTarget::term_like(Box::new(t.clone())));
    mp.set_alignment(MultiProgressAlignment::Bottom);
    let a = mp.add(bar("aaa"));
    let b = mp.add(bar("bbb"));
    a.tick(); b.tick();
    println!("{:?}", t.contents());
    mp.suspend(|| {});
    println!("{:?}", t.contents());
    mp.suspend(|| {});
    println!("{:?}", t.contents());
    mp.clear().unwrap();
    println!("after clear {:?}", t.contents());
    a.tick();
    println!("{:?}", t.contents());
    assert_eq!(t.contents(), "aaa\nbbb");
}

#[test]
fn top_clear_same() {
    let t = InMemoryTerm::new(10, 20);
    let mp = MultiProgress::with_draw_target(ProgressDrawTarget::term_like(Box::new(t.clone())));
    let a = mp.add(bar("aaa"));
    let b = mp.add(bar("bbb"));
    a.tick(); b.tick();
    mp.suspend(|| {});
    mp.suspend(|| {});
    mp.clear().unwrap();
    a.tick();
    assert_eq!(t.contents(), "aaa\nbbb");
}
