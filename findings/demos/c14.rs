use indicatif::{InMemoryTerm, ProgressBar, ProgressDrawTarget, ProgressStyle};

fn builds<F: FnOnce() -> ProgressStyle>(f: F) -> Option<ProgressStyle> {
    std::panic::catch_unwind(std::panic::AssertUnwindSafe(f)).ok()
}

fn renders(style: ProgressStyle, tmpl: &str) -> bool {
    let style = style.template(tmpl).unwrap();
    std::panic::catch_unwind(std::panic::AssertUnwindSafe(move || {
        let term = InMemoryTerm::new(10, 40);
        let pb = ProgressBar::with_draw_target(Some(10), ProgressDrawTarget::term_like(Box::new(term.clone())));
        pb.set_style(style);
        pb.set_position(3);
        pb.tick();
        pb.finish();
    }))
    .is_ok()
}

// F3: tick_strings() validates the wrong table: one / zero tick strings are accepted and the
// first draw panics.
#[test]
fn tick_strings_rejected_at_build_time_or_renderable() {
    for input in [&["a"][..], &[][..]] {
        match builds(|| ProgressStyle::default_spinner().tick_strings(input)) {
            None => {} // rejected at build time: fine
            Some(style) => assert!(renders(style, "{spinner} {msg}"), "accepted tick_strings({input:?}) panics when drawn"),
        }
    }
}

// F4: zero-width progress characters are accepted and {bar} divides by zero when drawn.
#[test]
fn zero_width_progress_chars_rejected_or_renderable() {
    match builds(|| ProgressStyle::default_bar().progress_chars("\u{200b}\u{200b}")) {
        None => {}
        Some(style) => assert!(renders(style, "{bar:10} {pos}"), "accepted zero-width progress chars panic when drawn"),
    }
}
