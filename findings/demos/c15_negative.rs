use indicatif::HumanFloatCount;

#[test]
fn the_sign_is_not_a_digit() {
    assert_eq!(format!("{}", HumanFloatCount(-123.0)), "-123");
    assert_eq!(format!("{}", HumanFloatCount(-123456.5)), "-123,456.5");
    assert_eq!(format!("{}", HumanFloatCount(-1234.5)), "-1,234.5");
    assert_eq!(format!("{}", HumanFloatCount(f64::NEG_INFINITY)), "-inf");
    assert_eq!(format!("{}", HumanFloatCount(f64::INFINITY)), "inf");
    assert_eq!(format!("{}", HumanFloatCount(1234567.0)), "1,234,567");
}
