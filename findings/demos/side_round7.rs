// Remarks of round-7 seed agents about the UNCHANGED library, reproduced here.
use indicatif::{InMemoryTerm, MultiProgress, ProgressBar, ProgressDrawTarget, ProgressStyle};

fn style() -> ProgressStyle { ProgressStyle::with_template("{msg}").unwrap() }

// (A) [A, B, C]; B.finish_with_message("B done"); mp.remove(&A); drop(B); C.tick()  ->  screen "A / C"?
#[test]
fn a_remove_then_drop_finished() {
    let term = InMemoryTerm::new(10, 40);
    let mp = MultiProgress::with_draw_target(ProgressDrawTarget::term_like(Box::new(term.clone())));
    let a = mp.add(ProgressBar::new(10).with_style(style()).with_message("A"));
    let b = mp.add(ProgressBar::new(10).with_style(style()).with_message("B"));
    let c = mp.add(ProgressBar::new(10).with_style(style()).with_message("C"));
    a.tick(); b.tick(); c.tick();
    assert_eq!(term.contents(), "A\nB\nC");
    b.finish_with_message("B done");
    mp.remove(&a);
    drop(b);
    c.tick();
    println!("after: {:?}", term.contents());
    assert!(!term.contents().contains("A"), "removed bar A is still on screen: {:?}", term.contents());
}

// (B) frame [text, bar] with the first bar taller than the terminal: the text line is left unterminated
#[test]
fn b_text_then_oversized_bar() {
    let term = InMemoryTerm::new(3, 10);
    let mp = MultiProgress::with_draw_target(ProgressDrawTarget::term_like(Box::new(term.clone())));
    let pb = mp.add(ProgressBar::new(10).with_style(style()));
    pb.set_message("x".repeat(35));
    pb.tick();
    mp.println("log 1").unwrap();
    pb.set_message("aaa");
    println!("after: {:?}", term.contents());
    assert!(term.contents().lines().any(|l| l == "log 1"), "the printed line was glued to the next frame: {:?}", term.contents());
}
