use indicatif::{InMemoryTerm, MultiProgress, ProgressBar, ProgressDrawTarget, ProgressStyle};

fn bar(msg: &str) -> ProgressBar {
    let pb = ProgressBar::new(3).with_style(ProgressStyle::with_template("{msg}").unwrap());
    pb.set_message(msg.to_string());
    pb
}

#[test]
fn shrinking_line_leaves_no_remnant_in_move_cursor_mode() {
    let t = InMemoryTerm::new(10, 40);
    let mp = MultiProgress::with_draw_target(ProgressDrawTarget::term_like(Box::new(t.clone())));
    mp.set_move_cursor(true);
    let a = mp.add(bar("working very hard"));
    let b = mp.add(bar("second"));
    a.tick();
    b.tick();
    assert_eq!(t.contents(), "working very hard\nsecond");
    a.finish_with_message("done");
    println!("{:?}", t.contents());
    assert_eq!(t.contents(), "done\nsecond");
}

#[test]
fn println_over_a_longer_bar_row_in_move_cursor_mode() {
    let t = InMemoryTerm::new(10, 40);
    let mp = MultiProgress::with_draw_target(ProgressDrawTarget::term_like(Box::new(t.clone())));
    mp.set_move_cursor(true);
    let a = mp.add(bar("aaaaaaaaaaaa 0/10"));
    a.tick();
    mp.println("hi").unwrap();
    assert_eq!(t.contents(), "hi\naaaaaaaaaaaa 0/10");
}
