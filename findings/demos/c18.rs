use indicatif::{MultiProgress, ProgressBar, ProgressDrawTarget, TermLike};
use std::io;
use std::sync::atomic::{AtomicBool, Ordering};
use std::sync::Arc;

#[derive(Debug, Clone)]
struct Failing(Arc<AtomicBool>);
impl Failing {
    fn r(&self) -> io::Result<()> {
        if self.0.load(Ordering::SeqCst) { Err(io::Error::new(io::ErrorKind::Other, "boom")) } else { Ok(()) }
    }
}
impl TermLike for Failing {
    fn width(&self) -> u16 { 80 }
    fn height(&self) -> u16 { 24 }
    fn move_cursor_up(&self, _: usize) -> io::Result<()> { self.r() }
    fn move_cursor_down(&self, _: usize) -> io::Result<()> { self.r() }
    fn move_cursor_right(&self, _: usize) -> io::Result<()> { self.r() }
    fn move_cursor_left(&self, _: usize) -> io::Result<()> { self.r() }
    fn write_line(&self, _: &str) -> io::Result<()> { self.r() }
    fn write_str(&self, _: &str) -> io::Result<()> { self.r() }
    fn clear_line(&self) -> io::Result<()> { self.r() }
    fn flush(&self) -> io::Result<()> { self.r() }
}

#[test]
fn set_tab_width_io_error_does_not_panic_or_poison() {
    let flag = Arc::new(AtomicBool::new(false));
    let pb = ProgressBar::with_draw_target(Some(10), ProgressDrawTarget::term_like(Box::new(Failing(flag.clone()))));
    pb.inc(1);
    flag.store(true, Ordering::SeqCst);
    let pb2 = pb.clone();
    let r = std::panic::catch_unwind(std::panic::AssertUnwindSafe(|| pb2.set_tab_width(4)));
    assert!(r.is_ok(), "set_tab_width panicked on an I/O error");
    let r = std::panic::catch_unwind(std::panic::AssertUnwindSafe(|| pb2.position()));
    assert!(r.is_ok(), "bar poisoned");
    assert_eq!(pb.position(), 1);
}

#[test]
fn multi_suspend_io_error_does_not_panic_or_poison() {
    let flag = Arc::new(AtomicBool::new(false));
    let mp = MultiProgress::with_draw_target(ProgressDrawTarget::term_like(Box::new(Failing(flag.clone()))));
    let pb = mp.add(ProgressBar::new(10));
    pb.inc(1);
    flag.store(true, Ordering::SeqCst);
    let mp2 = mp.clone();
    let r = std::panic::catch_unwind(std::panic::AssertUnwindSafe(|| mp2.suspend(|| 7)));
    assert!(matches!(r, Ok(7)), "suspend panicked on an I/O error");
    let r = std::panic::catch_unwind(std::panic::AssertUnwindSafe(|| mp2.is_hidden()));
    assert!(r.is_ok(), "multi poisoned");
    assert!(mp.println("x").is_err());
    assert_eq!(pb.position(), 1);
}
