use std::io;
use std::sync::{Arc, Mutex};

use indicatif::{ProgressBar, ProgressDrawTarget, ProgressStyle, TermLike};

#[derive(Debug, Clone, Default)]
struct Rec(Arc<Mutex<String>>);
impl TermLike for Rec {
    fn width(&self) -> u16 { 40 }
    fn move_cursor_up(&self, _: usize) -> io::Result<()> { Ok(()) }
    fn move_cursor_down(&self, _: usize) -> io::Result<()> { Ok(()) }
    fn move_cursor_right(&self, _: usize) -> io::Result<()> { Ok(()) }
    fn move_cursor_left(&self, _: usize) -> io::Result<()> { Ok(()) }
    fn write_line(&self, s: &str) -> io::Result<()> { self.0.lock().unwrap().push_str(s); Ok(()) }
    fn write_str(&self, s: &str) -> io::Result<()> { self.0.lock().unwrap().push_str(s); Ok(()) }
    fn clear_line(&self) -> io::Result<()> { Ok(()) }
    fn flush(&self) -> io::Result<()> { Ok(()) }
}

#[test]
fn tab_in_tick_strings_is_expanded() {
    let rec = Rec::default();
    let pb = ProgressBar::with_draw_target(None, ProgressDrawTarget::term_like(Box::new(rec.clone())));
    pb.set_style(ProgressStyle::with_template("[{spinner}] {msg}").unwrap().tick_strings(&["a\tb", "done"]));
    pb.set_message("m");
    pb.tick();
    let out = rec.0.lock().unwrap().clone();
    assert!(!out.contains('\t'), "a TAB reached the terminal: {out:?}");
}

#[test]
fn tab_in_progress_chars() {
    let rec = Rec::default();
    let pb = ProgressBar::with_draw_target(Some(10), ProgressDrawTarget::term_like(Box::new(rec.clone())));
    let style = std::panic::catch_unwind(|| ProgressStyle::with_template("[{bar:10}]").unwrap().progress_chars("#\t-"));
    let Ok(style) = style else { return };  // rejected when built: fine
    pb.set_style(style);
    pb.set_position(5);
    let out = rec.0.lock().unwrap().clone();
    assert!(!out.contains('\t'), "a TAB reached the terminal: {out:?}");
}
