use indicatif::{InMemoryTerm, MultiProgress, ProgressBar, ProgressDrawTarget, ProgressStyle};
#[test]
fn lines_printed_while_hidden_do_not_come_back() {
    let mp = MultiProgress::with_draw_target(ProgressDrawTarget::hidden());
    let pb = mp.add(ProgressBar::new(10).with_style(ProgressStyle::with_template("{msg}").unwrap()).with_message("bar"));
    pb.println("old-while-hidden 1");
    pb.println("old-while-hidden 2");
    let term = InMemoryTerm::new(10, 40);
    mp.set_draw_target(ProgressDrawTarget::term_like(Box::new(term.clone())));
    mp.println("new").unwrap();
    pb.tick();
    println!("{:?}", term.contents());
    assert!(!term.contents().contains("old-while-hidden"), "{:?}", term.contents());
}
